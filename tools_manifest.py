#!/venv/bin/python
"""(re)generate MANIFEST.json from the property modules that exist."""
import json, os, sys
HERE = os.path.dirname(os.path.abspath(__file__))
sys.path.insert(0, HERE)
NA = {
    "C16": "wrap_non_picklable_objects is a pure function of its input object: no schedule, clock, fault, crash point or second party for a simulator to control; deciding it needs input generation, a different technique (DESIGN 9)",
    "C17": "cpu_count() is a pure function of a configuration tuple (OS count, affinity, cgroup files, one environment variable, a memoised probe): enumerating it is input enumeration, not simulation (DESIGN 9)",
}
TEXT = {
 "C01": "seeded search over generated user programs (1-3 threads; submit/cancel/callbacks/shutdown in every form/del/get_reusable_executor/interpreter exit), task outcomes (return, raise, unpicklable either way, worker death), idle time-outs firing adversarially and worker kills at operation boundaries; liveness decided exactly (no enabled task and no timer = deadlock; only identical non-mutating pollers left = livelock), then every future must be terminal",
 "C02": "seeded kill-point search: SIGKILL/SIGSEGV/SIGTERM at random kernel-operation indices of a worker's life plus os._exit/self-kill from tasks and initializers; oracle over the final futures (own outcome or the one BrokenProcessPool object, TerminatedWorkerError naming true exit statuses), later submit, flags, every worker dead and reaped; a family where the death is timed at another worker's idle exit with a top-up submit (from the main thread or a done-callback); runs that never quiesce are decided by bounded liveness (death noticed within 20 s + 3 J of virtual time while the manager is in its normal loop)",
 "C03": "seeded search over concurrent submitters, cancels, maps with random chunk sizes and unequal iterables, time-outs/respawns and resizes; every value compared with a reference evaluation, executions counted in an omniscient log (<=1, 0 if cancelled, 1 otherwise), map output compared with builtin map",
 "C04": "seeded search over mixes of faulty tasks (every BaseException kind, unpicklable/too-large arguments, unpicklable results, raising callbacks) among healthy ones with bursts larger than the call queue; per-future outcome model with remote traceback, pool never broken, slot semaphore and pending/running bookkeeping restored, fresh submit works; done-callbacks that re-enter the executor (submit) from the manager or feeder thread",
 "C05": "(incl. late pickling errors right before the shutdown and a probe that a collected executor really starts shutting down) seeded search over shutdown histories (waited, not waited, context manager, del+collection, interpreter exit) placed at every point relative to dispatch, completion, idle time-outs and respawn, with late pickling errors; every submitted task ran once and delivered, workers left with status 0 and were reaped, never broken, manager ended, later submit raises ShutdownExecutorError; shutdown racing with another thread's (first) submit, with a process-wide check that no manager thread or worker is alive when a waited shutdown returns",
 "C06": "(incl. finished tasks that leave a subprocess or a busy nested executor behind) seeded search over pool states at the time of shutdown(kill_workers=True) / get_reusable_executor(kill_workers=True): queued, running (1e3 or 1e6 virtual seconds), nested executors two levels deep, grandchild processes, with and without psutil; call duration bounded in virtual time, futures fail with ShutdownExecutorError, whole process tree dead at return; forced shutdown arriving after an un-waited graceful shutdown",
 "C07": "(incl. a family where the next submit arrives exactly when the idle time-out expires) seeded search with time-outs down to 0 fired adversarially (starvation bound J) against dispatch, announcements, respawn, resize and shutdown; no kill injected: pool never broken, no TerminatedWorkerError, every task executed exactly once and delivered, workers exit 0",
 "C08": "per-step monitor (after every scheduler decision) of bodies executing and registered workers against the max_workers bound in force, over submits from several threads, time-outs, respawns and resizes; delivery checked on saturating batches of long tasks; a top-up race family: workers idle for exactly their time-out when a burst arrives, its last submit delayed at one of its own source lines",
 "C09": "seeded histories of get_reusable_executor calls from 1-3 threads interleaved with submissions, crashes, shutdowns and time-outs, compared at each return with a reference model of the singleton (exact for one thread, schedule-independent clauses for racing threads); singleton invariant at every return: each instance ever handed out that is not the current one is shut down or broken",
 "C10": "seeded search over (old,new) in 1..4^2 with work in flight, idle time-outs and worker kills placed inside _resize; tasks keep their results, call returns, live worker count and kept-worker identity checked when nothing left meanwhile",
}
def main():
    checks = []
    na = []
    ids = ["C%02d" % i for i in range(1, 21)]
    from simloky import engine
    for pid in ids:
        if pid in NA:
            na.append({"property_id": pid, "reason": NA[pid]})
            continue
        try:
            prop = engine.load_prop(pid)
        except ImportError:
            na.append({"property_id": pid, "reason": "check not built yet (planned, see DESIGN.md section 8)"})
            continue
        checks.append({
            "property_id": pid,
            "quick_cmd": "./check %s --tier quick" % pid,
            "thorough_cmd": "./check %s --tier thorough" % pid,
            "evidence_file": "evidence/%s.json" % pid,
            "replay_cmd_template": "./check %s --replay {path}" % pid,
            "engine": "simloky",
            "level_claimed": {"category": "exploration", "text": getattr(prop, "claim", None) or TEXT.get(pid, ""), "design_ref": "DESIGN.md section 8, %s" % pid},
            "level_note": "; ".join(prop.assumptions) + "; trusted base: the simulated kernel, SemLock model, interpreter-exit and GC-timing models of DESIGN.md section 4; a clean batch is evidence, not proof",
            "technique": "deterministic simulation with fault injection: real loky code on a simulated kernel under a seeded baton scheduler; seeded search over schedules (random walk, PCT priorities, single pre-emption/line-delay sweeps), timer expiries and fault plans; violations minimised and replayed from a decision list",
        })
    man = {
        "version": 1,
        "setup_cmd": "/venv/bin/python -c 'import sys; sys.path.insert(0, \"/repo\"); import cloudpickle, psutil, loky; print(\"simloky: nothing to build; loky is imported from /repo at run time\")'",
        "hooks": {"guard": "LOKY_VERIF", "enable": "no hooks are needed: every seam is a module global substituted from the harness (DESIGN.md section 12)",
                  "baseline_off_cmd": "cd /repo && /venv/bin/python -m pytest -ra -q -p no:cacheprovider --timeout=900 --continue-on-collection-errors",
                  "source_commits": [], "add_only": True},
        "engines": [{"name": "simloky", "path": "simloky/", "serves_properties": [c["property_id"] for c in checks],
                     "kind_free_text": "deterministic simulator: seeded baton scheduler over real threads, virtual clock, simulated kernel (pipes, fds, exec, signals, named semaphores), per-process module sets of loky and multiprocessing, fault engine, replay and minimisation"}],
        "checks": checks,
        "not_applicable": na,
        "notes": "Checks import loky from /repo's working tree at run time (VERIF_REPO overrides). Exit 0 = held on everything explored (KNOWN-FINDING lines for entries of known_findings.json), 1 = VIOLATION line, 2 = harness error. fix: commits in /repo are listed in known_findings.json under 'fixed'.",
    }
    json.dump(man, open(os.path.join(HERE, "MANIFEST.json"), "w"), indent=1)
    print("checks:", [c["property_id"] for c in checks], "n/a:", [n["property_id"] for n in na])
main()
