"""Interpreter for generated user programs (JSON-able op lists) that drive
loky's public API inside the simulated root process."""
import sys
import threading
import weakref

from . import kernel as sk
from . import runtime as rt
from . import tasks

REDUCER_LOG = []          # reset per run by the interpreter


class Marked:
    """payload type targeted by per-executor reducers (C15)."""

    def __init__(self, tag):
        self.tag = tag

    def __eq__(self, o):
        return isinstance(o, Marked) and o.tag == self.tag


def _rebuild_marked(tag, via):
    m = Marked(tag)
    m.via = via
    return m


class LoggingReducer:
    """reducer for `Marked` that logs every invocation (picklable by reference)."""

    def __init__(self, name):
        self.name = name

    def __call__(self, obj):
        cur = rt.RT.sched.cur()
        REDUCER_LOG.append((self.name, obj.tag, cur.proc.pid if cur else 0, cur.role if cur else "?"))
        return _rebuild_marked, (obj.tag, self.name)


def make_reducers(name):
    """a reducer map that logs every invocation under `name`."""
    return {Marked: LoggingReducer(name)}


def exc_summary(e):
    cause = getattr(e, "__cause__", None)
    return dict(type=type(e).__name__, args=_js(getattr(e, "args", ())),
                mro=[c.__name__ for c in type(e).__mro__[:6]],
                cause=type(cause).__name__ if cause is not None else None,
                cause_text=(str(cause)[:2000] if cause is not None else None),
                msg=str(e)[:600])


def _js(x):
    if isinstance(x, (list, tuple)):
        return [_js(i) for i in x]
    if isinstance(x, (str, int, float, bool)) or x is None:
        return x
    if isinstance(x, dict):
        return {str(k): _js(v) for k, v in x.items()}
    if isinstance(x, tasks.Big):
        return ["big", len(x.data)]
    if isinstance(x, Marked):
        return ["marked", x.tag, getattr(x, "via", None)]
    return repr(type(x).__name__)


class Interp:
    def __init__(self, run, spec):
        self.run = run
        self.spec = spec
        self.obs = run.obs
        self.slots = {}
        self.futs = {}
        self.maps = {}
        self.by_thread = {}
        self.user_threads = []
        self.held = {}
        self.inflight_all = []
        run.inflight_all = self.inflight_all
        if spec.get("hold_refs", True):
            run.keepalive = self      # like module-level globals of a script
        del REDUCER_LOG[:]

    # ------------------------------------------------------------ helpers
    def _ex_info(self, slot, ex, kind, kw):
        info = dict(slot=slot, kind=kind, kw=kw, flags=ex._flags, processes=ex._processes,
                    pending=ex._pending_work_items, running=ex._running_work_items,
                    wref=weakref.ref(ex), executor_id=getattr(ex, "executor_id", None),
                    ident=id(ex), mgr=None, n=len(self.obs.executors), max_workers=ex._max_workers,
                    pids_at_return=sorted(ex._processes),
                    base=ex._max_workers, inflight=[], all_pids=set())
        return info

    def _touch(self, ex):
        """remember the manager thread object once it exists."""
        for info in self.obs.executors.values():
            if info["wref"]() is ex:
                if info["mgr"] is None and ex._executor_manager_thread is not None:
                    info["mgr"] = weakref.ref(ex._executor_manager_thread)
                info["all_pids"].update(ex._processes)
                return info

    def _info_of(self, ex):
        for info in self.obs.executors.values():
            if info["wref"]() is ex:
                return info

    def _kwargs(self, kw):
        out = {}
        for k, v in kw.items():
            if k == "initializer":
                if v is not None:
                    out["initializer"] = tasks.initializer
                    out["initargs"] = (v["marker"], v.get("mode", "ok"))
            elif k == "job_reducers" or k == "result_reducers":
                out[k] = make_reducers(v) if v is not None else None
            elif k == "context":
                out[k] = v
            else:
                out[k] = v
        return out

    # ------------------------------------------------------------ ops
    def op_create(self, th, o):
        from loky import ProcessPoolExecutor
        kw = self._kwargs(o.get("kw", {}))
        if isinstance(kw.get("context"), str):
            from loky.backend import get_context
            kw["context"] = get_context(kw["context"])
        ex = ProcessPoolExecutor(**kw)
        self.slots[o["ex"]] = ex
        info = self._ex_info(o["ex"], ex, "plain", o.get("kw", {}))
        self.obs.executors[len(self.obs.executors)] = info
        return {"n": info["n"]}

    def op_reusable(self, th, o):
        from loky import get_reusable_executor
        import loky.reusable_executor as re_mod
        kw = self._kwargs(o.get("kw", {}))
        prev = re_mod._executor
        prev_state = None
        pinfo = self._info_of(prev) if prev is not None else None
        old_pids = sorted(prev._processes) if prev is not None else []
        req = kw.get("max_workers")
        if req is not None:
            self.inflight_all.append(req)
        if prev is not None:
            prev_state = dict(ident=id(prev), id=prev.executor_id, broken=prev._flags.broken is not None,
                              shutdown=prev._flags.shutdown, max_workers=prev._max_workers)
            # kept apart from the event payload: also available when the call raises (no reference to the thread
            # object is kept: its lifetime decides when loky's weak-keyed wake-up registry drops its entry)
            self.obs.data.setdefault("reusable_at_call", []).append(dict(
                thread=th, step=rt.RT.sched.steps, broken=prev_state["broken"], shutdown=prev_state["shutdown"],
                mgr_alive=self._thread_running(prev._executor_manager_thread)))
        try:
            ex = get_reusable_executor(**kw)
        finally:
            if req is not None:
                self.inflight_all.remove(req)
            for info_ in self.obs.executors.values():
                if info_["kind"] == "reusable":
                    e_ = info_["wref"]()
                    if e_ is not None:
                        cur_mw = e_._max_workers
                        # with other calls still in flight the value this call asked for may have been in
                        # effect (and already be replaced by the next call's) when the return is observed
                        info_["base"] = cur_mw if not self.inflight_all else max(info_["base"], cur_mw, req or 0)
        k = rt.RT.kernel
        known = None
        for info in self.obs.executors.values():
            if info["wref"]() is ex:
                known = info
        fresh = known is None
        if known is None:
            known = self._ex_info(o["ex"], ex, "reusable", o.get("kw", {}))
            self.obs.executors[len(self.obs.executors)] = known
        # singleton: every instance ever handed out that is not the current one has been shut down (or broke)
        cur_ = re_mod._executor
        stale_live = []
        for info_ in self.obs.executors.values():
            if info_["kind"] == "reusable":
                e_ = info_["wref"]()
                if e_ is not None and e_ is not cur_ and not e_._flags.shutdown and e_._flags.broken is None \
                        and re_mod._executor is cur_:
                    stale_live.append((info_["n"], e_.executor_id))
        self.slots[o["ex"]] = ex
        alive_old = []
        if prev is not None and prev is not ex:
            for info in self.obs.executors.values():
                if info["ident"] == prev_state["ident"] and info["wref"]() is prev:
                    mgr = info["mgr"]() if info["mgr"] is not None else None
                    alive_old = dict(
                        mgr_alive=bool(mgr is not None and mgr.is_alive()),
                        pending=len(info["pending"]),
                        registered=sorted(info["processes"]))
        procs = ex._processes
        if prev_state is not None:
            prev_state = {k: v for k, v in prev_state.items() if k != "ident"}
            prev_state["broken_at_return"] = prev._flags.broken is not None
            prev_state["shutdown_at_return"] = prev._flags.shutdown
        return dict(n=known["n"], id=ex.executor_id, same=(prev is ex), prev=prev_state, old_pids=old_pids, fresh=fresh,
                    started=ex._executor_manager_thread is not None, stale_live=stale_live,
                    old=alive_old, max_workers=ex._max_workers,
                    broken=ex._flags.broken is not None, shutdown=ex._flags.shutdown,
                    pids=sorted(procs), alive=sorted(p for p in procs if k.procs[p].alive),
                    is_alive_api=sorted(pid for pid, p in list(procs.items()) if p._popen is not None
                                        and p._popen.returncode is None))

    @staticmethod
    def _thread_running(t):
        """is this threading.Thread still running - read from the scheduler, without a simulated operation."""
        if t is None or t.ident is None:
            return False
        task = rt.RT.sched.by_ident.get(t.ident)
        return bool(task is not None and task.state != sk.DONE)

    def _task(self, th, o):
        ts = dict(o["task"])
        ts["ex"] = o["ex"]
        return ts

    def op_submit(self, th, o):
        ex = self.slots[o["ex"]]
        ts = self._task(th, o)
        extra = []
        for a in o.get("args", []):
            if a[0] == "bad_reduce":
                extra.append(tasks.BadReduce(a[1]))
            elif a[0] == "bad_rebuild":
                extra.append(tasks.BadRebuild())
            elif a[0] == "big":
                extra.append(tasks.Big(a[1]))
            elif a[0] == "slow":
                extra.append(tasks.SlowPickle(a[1]))
            elif a[0] == "marked":
                extra.append(Marked(a[1]))
        red = sys.modules["loky.backend.reduction"]
        rec = dict(fid=o["f"], task=ts, ex=o["ex"], thread=th, args=o.get("args", []), fut=None,
                   submitted=False, pickler_at_submit=red.get_loky_pickler_name(), cancel=None,
                   exn=None)
        for n, info in self.obs.executors.items():
            if info["wref"]() is ex:
                rec["exn"] = n
        ts["exn"] = rec["exn"]
        self.obs.futures[o["f"]] = rec
        if ts.get("kind") == "retmarked":
            f = ex.submit(ret_marked, ts, *extra)
        else:
            f = ex.submit(tasks.call, ts, *extra)
        rec["fut"] = f
        rec["submitted"] = True
        rec["pickler_after_submit"] = red.get_loky_pickler_name()
        rec["t_submit"] = rt.RT.sched.now
        self.futs[o["f"]] = f
        self.by_thread.setdefault(th, []).append(o["f"])
        self._touch(ex)
        return {}

    def op_map(self, th, o):
        ex = self.slots[o["ex"]]
        its = [range(off, off + n) for off, n in o["its"]]
        it = ex.map(_Bound(o["m"]), *its, chunksize=o.get("chunksize", 1))
        self.maps[o["m"]] = (it, its)
        self._touch(ex)
        self.obs.data.setdefault("maps", {})[o["m"]] = dict(its=o["its"], chunksize=o.get("chunksize", 1),
                                                           ex=o["ex"], out=None, exc=None)
        return {}

    def op_map_collect(self, th, o):
        it, its = self.maps[o["m"]]
        rec = self.obs.data["maps"][o["m"]]
        out = []
        try:
            for v in it:
                out.append(v)
            rec["out"] = out
        except BaseException as e:  # noqa
            if isinstance(e, sk.SimKilled):
                raise
            rec["out"] = out
            rec["exc"] = exc_summary(e)
        return {"n": len(out)}

    def op_cancel(self, th, o):
        f = self.futs.get(o["f"])
        if f is None:
            return {"skipped": True}
        r = f.cancel()
        self.obs.futures[o["f"]]["cancel"] = r
        return {"r": r}

    def op_result(self, th, o):
        f = self.futs.get(o["f"])
        if f is None:
            return {"skipped": True}
        try:
            v = f.result(o.get("timeout"))
            return {"v": _js(v)}
        except BaseException as e:  # noqa
            if isinstance(e, sk.SimKilled):
                raise
            return {"e": type(e).__name__}

    def op_wait_all(self, th, o):
        fids = list(self.futs) if o.get("which") == "all" else list(self.by_thread.get(th, []))
        n = 0
        for fid in fids:
            f = self.futs[fid]
            try:
                f.result()
            except BaseException as e:  # noqa
                if isinstance(e, sk.SimKilled):
                    raise
            n += 1
        return {"n": n}

    def op_callback(self, th, o):
        f = self.futs.get(o["f"])
        if f is None:
            return {"skipped": True}
        mode = o.get("mode", "ok")
        log = self.obs.data.setdefault("callbacks", [])

        ex_slot = self.obs.futures[o["f"]]["ex"]

        def cb(fut, mode=mode, fid=o["f"]):
            try:
                return cb_body(fut, mode, fid)
            finally:
                self.obs.data["cb_finished"] = self.obs.data.get("cb_finished", 0) + 1

        def cb_body(fut, mode, fid):
            log.append((fid, mode))
            if mode == "raise":
                raise tasks.CustomError("callback failed")
            if mode == "raise_base":
                raise tasks.CustomBase("callback failed hard")
            if mode == "submit":
                # re-submit from the done-callback (runs on the manager thread or on the cancelling thread)
                ex = self.slots.get(ex_slot)
                nid = "cb%s" % fid
                if ex is None or nid in self.futs:
                    return
                ts = dict(id=100000 + (fid if isinstance(fid, int) else 0), kind="work", dur=0, ex=ex_slot)
                rec = dict(fid=nid, task=ts, ex=ex_slot, thread="cb", args=[], fut=None, submitted=False,
                           pickler_at_submit=None, cancel=None, exn=None)
                self.obs.futures[nid] = rec
                try:
                    f2 = ex.submit(tasks.call, ts)
                except sk.SimKilled:
                    raise
                except BaseException as e:  # noqa
                    rec["submit_error"] = type(e).__name__
                    return
                rec["fut"] = f2
                rec["submitted"] = True
                self.futs[nid] = f2
        self.obs.data.setdefault("cb_registered", []).append((o["f"], mode))
        f.add_done_callback(cb)
        return {}

    def op_settle(self, th, o):
        """wait until every registered future is done and every attached done-callback has finished (callbacks
        run after the waiters of a future are released, and may submit more work)."""
        for _ in range(20000):
            # callbacks first: a finished callback has already recorded the future it submitted
            if self.obs.data.get("cb_finished", 0) >= len(self.obs.data.get("cb_registered", [])) and \
                    all(f.done() for f in list(self.futs.values())):
                return {"settled": True}
            rt.RT.sched.sleep(0.01)
        return {"settled": False}

    def op_shutdown(self, th, o):
        ex = self.slots.get(o["ex"])
        if ex is None:
            return {"skipped": True}
        info = self._touch(ex)
        k = rt.RT.kernel
        t0 = rt.RT.sched.now
        ex.shutdown(wait=o.get("wait", True), kill_workers=o.get("kill", False))
        return self._after_shutdown(info, t0)

    def _after_shutdown(self, info, t0):
        k = rt.RT.kernel
        if info is None:
            return {}
        mgr = info["mgr"]() if info["mgr"] is not None else None
        pids = sorted(info["all_pids"])
        desc = []
        for pid in pids:
            desc.extend(c.pid for c in k.descendants_by_origin(pid))
        sched = rt.RT.sched
        return dict(dt=round(rt.RT.sched.now - t0, 6), mgr_alive=bool(mgr is not None and mgr.is_alive()),
                    # process-wide view (decisive when the program has a single executor): a manager thread or a
                    # worker the bookkeeping above has not seen yet, e.g. started by a racing first submit()
                    any_mgr_alive=any(t.role == "manager" and t.proc.pid == 100 and t.state != sk.DONE for t in sched.tasks),
                    any_workers_alive=sorted(p.pid for p in k.procs.values()
                                             if p.role == "worker" and p.orig_ppid == 100 and p.alive),
                    workers_alive=[p for p in pids if k.procs[p].alive],
                    desc_alive=[p for p in desc if k.procs[p].alive],
                    zombies=[p for p in pids if not k.procs[p].alive and not k.procs[p].reaped],
                    exn=info["n"], pids=pids)

    def op_with(self, th, o):
        ex = self.slots.get(o["ex"])
        if ex is None:
            return {"skipped": True}
        info = self._touch(ex)
        t0 = rt.RT.sched.now
        ex.__exit__(None, None, None)
        return self._after_shutdown(info, t0)

    def op_del(self, th, o):
        ex = self.slots.pop(o["ex"], None)
        if ex is None:
            return {"skipped": True}
        self._touch(ex)
        for s in [k for k, v in self.slots.items() if v is ex]:
            del self.slots[s]
        wr = weakref.ref(ex)
        del ex
        collected = wr() is None
        if not collected and o.get("gc", True):
            rt.safe_collect()
            collected = wr() is None
        return {"collected": collected}

    def op_gc(self, th, o):
        # multiprocessing keeps started Process objects in a module-level set until the next
        # active_children()/start(): let it forget the finished ones, then collect.
        sys.modules["multiprocessing.process"].active_children()
        rt.safe_collect()
        return {}

    def op_sleep(self, th, o):
        rt.RT.sched.sleep(o["d"])
        return {}

    def op_set_pickler(self, th, o):
        from loky import set_loky_pickler
        set_loky_pickler(o["name"])
        return {}

    def op_join_users(self, th, o):
        for t in self.user_threads:
            t.join()
        return {}

    def op_raise(self, th, o):
        raise tasks.CustomError("uncaught exception in the user program")

    def op_exit(self, th, o):
        raise SystemExit(o.get("code", 0))

    def op_submit_expect_error(self, th, o):
        """submit that is expected to raise (after shutdown / break)."""
        ex = self.slots.get(o["ex"])
        if ex is None:
            return {"skipped": True}
        try:
            f = ex.submit(tasks.call, dict(id=o.get("id", -1), kind="work", ex=o["ex"]))
        except BaseException as e:  # noqa
            if isinstance(e, sk.SimKilled):
                raise
            fl = ex._flags
            return {"e": exc_summary(e), "same_as_broken": e is fl.broken}
        self.futs["late%s" % o.get("id", -1)] = f
        self.obs.futures["late%s" % o.get("id", -1)] = dict(
            fid="late", task=dict(id=o.get("id", -1), kind="work"), ex=o["ex"], thread=th, args=[],
            fut=f, submitted=True, cancel=None, exn=None, pickler_at_submit=None)
        return {"accepted": True}

    def op_probe_gc_shutdown(self, th, o):
        info = self.obs.executors.get(o.get("n", 0))
        if info is None:
            return {"skipped": True}
        k = rt.RT.kernel
        mgr_alive = any(t.role == "manager" and t.state != sk.DONE for t in k.procs[100].tasks)
        return dict(collected=info["wref"]() is None, mgr_alive=mgr_alive, pending=len(info["pending"]),
                    workers_alive=[p for p in sorted(info["all_pids"] | set(info["processes"])) if k.procs[p].alive],
                    shutdown_flag=info["flags"].shutdown)

    def op_check_idle(self, th, o):
        """bookkeeping of an executor when all futures handed out are done."""
        ex = self.slots.get(o["ex"])
        if ex is None or ex._call_queue is None:
            return {"skipped": True}
        q = ex._call_queue
        return dict(pending=len(ex._pending_work_items), sem=q._sem._semlock._get_value(), maxsize=q._maxsize,
                    broken=ex._flags.broken is not None)

    def op_snapshot(self, th, o):
        k = rt.RT.kernel
        root = k.procs[100]
        snap = dict(
            fds=len(root.fds),
            tasks=sum(1 for t in root.tasks if t.state != sk.DONE),
            children=sum(1 for c in k.procs.values() if c.ppid == 100 and not c.reaped
                         and c.role != "tracker"),
            sems=sum(1 for s in k.sems.values() if s.creator == 100),
            feeders_in_write=sum(1 for t in root.tasks if t.state == sk.BLOCKED and t.role == "feeder" and t.what == "write"),
            tag=o.get("tag"))
        self.obs.data.setdefault("snapshots", []).append(snap)
        return snap

    def op_open_fds(self, th, o):
        fos = rt.RT.kernel.procs[100].overlay["os"]
        made = []
        for inh in o["inh"]:
            r, w = fos.pipe()
            fos.set_inheritable(r, bool(inh & 1))
            fos.set_inheritable(w, bool(inh & 2))
            made.append((r, w))
        self.obs.data.setdefault("extra_fds", []).extend(made)
        return {"fds": made}

    def op_setenv(self, th, o):
        env = rt.RT.kernel.procs[100].overlay["os"].environ
        if o.get("value") is None:
            env.pop(o["key"], None)
        else:
            env[o["key"]] = o["value"]
        return {}

    def op_child_exit(self, th, o):
        """plain LokyProcess child ending with a given code / signal."""
        from loky.backend import get_context
        ctx = get_context(o.get("context", "loky"))
        p = ctx.Process(target=tasks.exit_with, args=(o["mode"], o.get("code", 0)))
        p.start()
        k = rt.RT.kernel
        from multiprocessing.connection import wait as mpwait
        ready_before = bool(mpwait([p.sentinel], 0)) if o.get("probe_before") else None
        alive_truth_before = k.procs[p.pid].alive
        seen = []
        pollers = []
        for n in range(o.get("pollers", 0)):
            # other threads of the parent look at the same child while the main thread joins it
            def poll_loop(n=n):
                for _ in range(400):
                    v = p.exitcode
                    if v is not None:
                        seen.append((n, v, k.procs[p.pid].alive))
                        return
                    if not p.is_alive() and k.procs[p.pid].alive:
                        seen.append((n, "not-alive-while-alive", True))
                        return
                    rt.RT.sched.sleep(0.002)
            t = threading.Thread(target=poll_loop, name="poller-%d" % n)
            t.start()
            pollers.append(t)
        p.join()
        for t in pollers:
            t.join()
        ready_after = bool(mpwait([p.sentinel], 0))
        st = k.procs[p.pid].status
        return dict(pid=p.pid, exitcode=p.exitcode, truth=list(st) if st else None, ready_before=ready_before, seen=seen,
                    alive_truth_before=alive_truth_before, ready_after=ready_after, is_alive=p.is_alive())

    def op_sync_make(self, th, o):
        from loky.backend import get_context
        ctx = get_context("loky")
        kind = o["kind"]
        obj = ctx.Semaphore(1) if kind == "Semaphore" else getattr(ctx, kind)()
        self.held[o["name"]] = obj
        return {}

    def op_sync_drop(self, th, o):
        obj = self.held.pop(o["name"], None)
        names = []
        if obj is not None:
            def walk(x, depth=0):
                sl = getattr(x, "_semlock", None)
                if sl is not None:
                    names.append(sl.name)
                if depth < 3:
                    for a in ("_lock", "_sleeping_count", "_woken_count", "_wait_semaphore", "_cond", "_flag"):
                        y = getattr(x, a, None)
                        if y is not None:
                            walk(y, depth + 1)
            walk(obj)
        self.dropped = getattr(self, "dropped", []) + names
        del obj
        return {"names": names}

    def op_sem_snapshot(self, th, o):
        k = rt.RT.kernel
        return dict(linked=sorted(k.sems), owned_by_dropped=sorted(n for n in getattr(self, "dropped", []) if n in k.sems))

    def op_kill_tracker(self, th, o):
        trk = sys.modules["loky.backend.resource_tracker"]._resource_tracker
        k = rt.RT.kernel
        pid = trk._pid
        if pid is None:
            return {"skipped": True}
        rt.RT.sched.yield_("kill")
        k.deliver(k.procs[pid], sk.SIGKILL)
        k.fault_counts["kill:tracker:9"] += 1
        return {"pid": pid}

    def op_tracked_op(self, th, o):
        """a tracked operation: creating a loky Lock registers with the tracker."""
        from loky.backend import get_context
        trk = sys.modules["loky.backend.resource_tracker"]._resource_tracker
        before = trk._pid
        lk = get_context("loky").Lock()
        after = trk._pid
        del lk
        return {"before": before, "after": after}

    # ------------------------------------------------------------ driver
    def run_thread(self, th, ops):
        cur = rt.RT.sched.cur()
        for i, o in enumerate(ops):
            name = o["op"]
            if cur.killed or not cur.proc.alive:
                raise sk.SimKilled()      # the process is gone: nothing it "observes" from here on is real
            ev = self.obs.event(thread=th, i=i, op=name, phase="call", o=o)
            cur.api = (name, o.get("ex"), o.get("f"), o.get("context"))
            if o.get("arm"):                      # knob line_at {armed: True} counts lines of this call only
                self.run.line_at_armed = cur.ident
            elif getattr(self.run, "line_at_armed", None) == cur.ident:
                self.run.line_at_armed = None
            try:
                r = getattr(self, "op_" + name)(th, o)
            except sk.SimKilled:
                raise
            except (SystemExit,) as e:
                cur.api = None
                self.obs.event(thread=th, i=i, op=name, phase="exc", r={"e": "SystemExit"})
                raise
            except BaseException as e:  # noqa
                cur.api = None
                if name == "raise":
                    self.obs.event(thread=th, i=i, op=name, phase="exc", r={"e": "uncaught"})
                    raise
                self.obs.event(thread=th, i=i, op=name, phase="exc", r={"e": exc_summary(e)}, o=o)
                continue
            cur.api = None
            self.obs.event(thread=th, i=i, op=name, phase="ret", r=r, o=o)

    def op_start_users(self, th, o):
        if self.user_threads:
            return {}
        for n, ops in enumerate(self.spec["threads"][1:], 1):
            t = threading.Thread(target=self.run_thread, args=(n, ops), name="user%d" % n)
            self.user_threads.append(t)
            t.start()
        return {"n": len(self.user_threads)}

    def main(self):
        threads = self.spec["threads"]
        if not any(o["op"] == "start_users" for o in threads[0]):
            self.op_start_users(0, {})
        try:
            self.run_thread(0, threads[0])
        finally:
            if self.spec.get("join_users", True) and not rt.RT.sched.teardown:
                cur = rt.RT.sched.cur()
                if cur is not None and not cur.killed:
                    cur.api = ("join_users", None, None)
                    for t in self.user_threads:
                        t.join()
                    cur.api = None
        self.obs.event(thread=0, i=-1, op="main_return", phase="ret", r={})
        rt.RT.sched.cur().api = ("interpreter_exit", None, None)


class _Bound:
    """picklable callable: mapfn bound to a map id."""

    def __init__(self, mid):
        self.mid = mid

    def __call__(self, *xs):
        return tasks.mapfn(self.mid, *xs)


def ret_marked(ts, *extra):
    tasks.call(dict(ts, kind="work"))
    return Marked(ts["id"])


def program_from_spec(spec):
    def program(run):
        Interp(run, spec).main()
    return program
