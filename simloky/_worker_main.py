import os
import sys

sys.path.insert(0, os.path.dirname(os.path.dirname(os.path.abspath(__file__))))
from simloky import engine  # noqa: E402

if __name__ == "__main__":
    engine.worker_main(sys.argv[1:])
