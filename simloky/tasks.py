"""Task bodies, initializers and payload objects executed inside simulated
workers.  This module is shared by every simulated process (it is harness code,
pickled by reference), so it reaches the current process through RT."""
import struct
import sys

from . import runtime as rt
from . import kernel as sk


class CustomBase(BaseException):
    pass


class CustomError(Exception):
    pass


EXC = {
    "ValueError": ValueError, "KeyError": KeyError, "SystemExit": SystemExit,
    "KeyboardInterrupt": KeyboardInterrupt, "CustomBase": CustomBase,
    "CustomError": CustomError, "RuntimeError": RuntimeError, "OSError": OSError,
}


def _boom(msg):
    raise CustomError(msg)


class BadReduce:
    """cannot be pickled (raises in the sending process)."""

    def __init__(self, kind="ValueError"):
        self.kind = kind

    def __reduce__(self):
        if self.kind == "struct":
            raise struct.error("'i' format requires -2147483648 <= number <= 2147483647")
        raise EXC[self.kind]("cannot pickle BadReduce")


class BadRebuild:
    """pickles fine, fails when the receiving process rebuilds it."""

    def __reduce__(self):
        return (_boom, ("cannot rebuild BadRebuild",))


class Big:
    def __init__(self, n):
        self.data = b"x" * n

    def __eq__(self, o):
        return isinstance(o, Big) and o.data == self.data


class SlowPickle:
    """pickling takes virtual time (in whichever process pickles it)."""

    def __init__(self, d):
        self.d = d

    def __reduce__(self):
        s = rt.RT.sched
        if s is not None and s.cur() is not None:
            s.sleep(self.d)
        return (SlowPickle, (self.d,))


def value_of(ts):
    return ["ok", ts["id"]]


def _proc():
    return rt.RT.sched.cur().proc


def _mod(name):
    return sys.modules[name]


def observe(proc):
    pe = _mod("loky.process_executor")
    red = _mod("loky.backend.reduction")
    trk = _mod("loky.backend.resource_tracker")
    return dict(depth=pe._CURRENT_DEPTH, init=proc.info.get("init"),
                pickler=red.get_loky_pickler_name(), tracker=trk._resource_tracker._pid,
                env_probe={k: proc.env.get(k) for k in proc.info.get("probe_env", ())})


def call(ts, *extra):
    R = rt.RT
    s = R.sched
    proc = s.cur().proc
    run = R.run
    entry = dict(task=ts["id"], pid=proc.pid, t0=s.now, t1=None, ex=ts.get("ex"), exn=ts.get("exn"),
                 s0=s.steps, s1=None)
    entry.update(observe(proc))
    if ts.get("probe_env"):
        entry["env_probe"] = {k: proc.env.get(k) for k in ts["probe_env"]}
    run.obs.exec_log.append(entry)
    run.active_bodies[proc.pid] = (ts.get("exn"), ts["id"])
    n = sum(1 for pid, (ex, _) in run.active_bodies.items()
            if ex == ts.get("exn") and R.kernel.procs[pid].alive)
    if n > run.peak_bodies[ts.get("exn")]:
        run.peak_bodies[ts.get("exn")] = n
    try:
        return _body(ts, proc, s, entry)
    finally:
        run.active_bodies.pop(proc.pid, None)
        if proc.alive:
            entry["t1"] = s.now
            entry["s1"] = s.steps


def _body(ts, proc, s, entry):
    dur = ts.get("dur", 0)
    if dur:
        s.sleep(dur)
    kind = ts.get("kind", "work")
    fos = proc.overlay["os"]
    if kind == "work":
        return value_of(ts)
    if kind == "raise":
        raise EXC[ts["exc"]](ts["id"], "task-raised")
    if kind == "exit":
        fos._exit(ts.get("code", 3))
    if kind == "kill":
        fos.kill(proc.pid, ts.get("sig", 9))
        s.sleep(1e9)
    if kind == "bad_result":
        return BadReduce(ts.get("exc", "ValueError"))
    if kind == "bad_result_rebuild":
        return BadRebuild()
    if kind == "big":
        return Big(ts["n"])
    if kind == "leak":
        proc.rss += ts.get("bytes", int(4e8))
        s.sleep(ts.get("after", 1.5))
        return value_of(ts)
    if kind == "nested":
        return nested(ts, proc, s, entry)
    if kind == "child":
        return spawn_child(ts, proc, s)
    if kind == "nested_leave":
        return nested_leave(ts, proc, s)
    if kind == "sems":
        return sems(ts, proc, s)
    if kind == "lock_token":
        return value_of(ts)
    raise sk.HarnessError("unknown task kind %r" % kind)


def nested(ts, proc, s, entry):
    """create an executor inside this worker, run sub-tasks, recurse."""
    from loky import ProcessPoolExecutor       # this worker's own module copy
    pe = _mod("loky.process_executor")
    spec = ts["nested"]
    out = {"depth": pe._CURRENT_DEPTH, "pid": proc.pid, "sub": []}
    ctx = spec.get("context")
    if isinstance(ctx, str):
        from loky.backend import get_context
        ctx = get_context(ctx)
    try:
        ex = ProcessPoolExecutor(max_workers=spec.get("workers", 1), timeout=spec.get("timeout"),
                                 context=ctx)
    except pe.LokyRecursionError:
        out["refused"] = True
        rt.RT.run.obs.notes.append(("refused", proc.pid, pe._CURRENT_DEPTH, spec.get("context")))
        return out
    rt.RT.run.obs.notes.append(("constructed", proc.pid, pe._CURRENT_DEPTH, spec.get("context")))
    futs = [ex.submit(call, sub) for sub in spec.get("sub", [])]
    if spec.get("hold"):
        s.sleep(spec["hold"])
    for f in futs:
        try:
            out["sub"].append(f.result())
        except BaseException as e:   # noqa
            if isinstance(e, sk.SimKilled):
                raise
            out["sub"].append(["exc", type(e).__name__])
    end = spec.get("end", "wait")
    if end == "wait":
        ex.shutdown(wait=True)
    elif end == "nowait":
        ex.shutdown(wait=False)
    return out


def nested_leave(ts, proc, s):
    """start a nested executor with a long job and return without waiting for it."""
    from loky import ProcessPoolExecutor
    ex = ProcessPoolExecutor(max_workers=1)
    f = ex.submit(call, dict(id=ts["id"] + 5000, kind="work", dur=ts.get("sub_dur", 1e6)))
    proc.info.setdefault("kept", []).append((ex, f))
    s.sleep(ts.get("settle", 0.5))     # let the nested worker start
    return value_of(ts)


def child_main(d):
    s = rt.RT.sched
    s.sleep(d)


def spawn_child(ts, proc, s):
    """start a plain LokyProcess child (a grandchild of the root)."""
    from loky.backend import get_context
    ctx = get_context("loky")
    p = ctx.Process(target=child_main, args=(ts.get("child_dur", 1e6),))
    p.start()
    rt.RT.run.obs.notes.append(("grandchild", proc.pid, p.pid))
    s.sleep(ts.get("hold", 1e6))
    return value_of(ts)


def sems(ts, proc, s):
    """create (and maybe dispose of) synchronisation primitives in a worker."""
    from loky.backend import get_context
    ctx = get_context("loky")
    objs = []
    for kind in ts.get("make", []):
        objs.append(getattr(ctx, kind)() if kind != "Semaphore" else ctx.Semaphore(1))
    if ts.get("keep"):
        proc.info.setdefault("kept", []).extend(objs)
    if ts.get("then") == "exit":
        proc.overlay["os"]._exit(5)
    if ts.get("then") == "kill":
        proc.overlay["os"].kill(proc.pid, 9)
    del objs
    return value_of(ts)


def mapfn(mid, *xs):
    R = rt.RT
    s = R.sched
    proc = s.cur().proc
    entry = dict(task=["m", mid, list(xs)], pid=proc.pid, t0=s.now, t1=s.now, ex=None)
    entry.update(observe(proc))
    R.run.obs.exec_log.append(entry)
    return ["m", mid, list(xs)]


def ref_mapfn(mid, *xs):
    return ["m", mid, list(xs)]


def initializer(marker, mode="ok"):
    proc = _proc()
    rt.RT.run.obs.notes.append(("init", proc.pid, marker, mode))
    if mode == "raise":
        raise CustomError("initializer failed")
    if mode == "exit":
        proc.overlay["os"]._exit(7)
    if mode == "kill":
        proc.overlay["os"].kill(proc.pid, 9)
    proc.info["init"] = marker


def pickler_name():
    return _mod("loky.backend.reduction").get_loky_pickler_name()


def exit_with(mode, code):
    s = rt.RT.sched
    proc = s.cur().proc
    s.sleep(0.01)
    fos = proc.overlay["os"]
    if mode == "_exit":
        fos._exit(code)
    if mode == "exit":
        raise SystemExit(code)
    if mode == "signal":
        fos.kill(proc.pid, code)
        s.sleep(1e9)
    if mode == "raise":
        raise CustomError("child failed")
    return None
