import sys
from .debug import find
find(sys.argv[1:])
