"""simloky: deterministic simulation of joblib/loky with fault injection.

See /verif/DESIGN.md.  Everything here runs the *real* loky code from the
current working tree of the repository (VERIF_REPO, default /repo) on top of a
simulated kernel and a seeded baton scheduler.
"""
ENGINE_VERSION = 1
