"""One simulated run: set-up, fault engine, monitors, tear-down, result."""
import collections
import gc
import hashlib
import os as real_os
import sys
import threading
import time as real_time
import traceback

from . import kernel as sk
from . import runtime as rt

DEFAULT_MODEL = dict(cpu=2, psutil=True, pipe_cap=sk.PIPE_CAP, boot=0.02)


class Obs:
    """what the program and the task bodies record (the oracle's view)."""

    def __init__(self):
        self.events = []       # dicts: seq, thread, i, op, phase, now, + payload
        self.futures = {}      # fid -> dict(fut=..., task=..., ex=..., thread=...)
        self.exec_log = []     # dicts written by task bodies
        self.executors = {}    # slot -> list of dict(obj=..., kind=..., kwargs=...)
        self.notes = []
        self.data = {}
        self.seq = 0

    def event(self, **kw):
        self.seq += 1
        kw["seq"] = self.seq
        kw["now"] = rt.RT.sched.now
        kw["step"] = rt.RT.sched.steps
        self.events.append(kw)
        return kw


class Run:
    def __init__(self, spec):
        self.spec = spec
        self.model = dict(DEFAULT_MODEL)
        self.model.update(spec.get("model") or {})
        self.post_boot = None
        self.warnings = []
        self.thread_excs = []
        self.atexit_errors = []
        self.line_preempts = 0
        self.obs = Obs()
        self.procs_by_role = collections.defaultdict(list)
        self.faults = [dict(f, fired=False) for f in (spec.get("faults") or [])]
        self.fault_log = []
        self.monitors = []          # callables(run) after every step
        self.monitor_violations = []
        self.active_bodies = {}     # pid -> (exkey, task id)
        self.peak_bodies = collections.Counter()
        self.states = set()
        self.state_fn = None

    # ---- process bookkeeping
    def on_proc_start(self, proc):
        self.procs_by_role[proc.role].append(proc)
        proc.info["index"] = len(self.procs_by_role[proc.role]) - 1
        par = rt.RT.kernel.procs.get(proc.ppid)
        proc.info["depth"] = (par.info.get("depth", 0) + 1) if par is not None and proc.role == "worker" \
            else (par.info.get("depth", 0) if par is not None else 0)

    def target(self, spec):
        kind = spec[0]
        if kind == "root":
            return rt.RT.kernel.procs.get(100)
        lst = self.procs_by_role.get({"w": "worker", "t": "tracker", "c": "child"}[kind], [])
        i = spec[1]
        return lst[i] if i < len(lst) else None

    # ---- fault engine (called from Sched.yield_ before every operation)
    def on_op(self, task, what):
        for f in self.faults:
            if f["fired"]:
                continue
            at = f["at"]
            if at[0] == "op":
                p = self.target(f["target"])
                if p is task.proc and p.nops >= at[1]:
                    self.fire(f, p)
            elif at[0] == "opk":      # n-th op of a given kind by the target
                p = self.target(f["target"])
                if p is task.proc and what == at[1]:
                    c = f.get("_c", 0) + 1
                    f["_c"] = c
                    if c >= at[2]:
                        self.fire(f, p)
            elif at[0] == "step":
                if task.sched.steps >= at[1]:
                    p = self.target(f["target"])
                    if p is not None:
                        self.fire(f, p)
            elif at[0] == "time":
                if task.sched.now >= at[1]:
                    p = self.target(f["target"])
                    if p is not None:
                        self.fire(f, p)

    def fire(self, f, p):
        f["fired"] = True
        k = rt.RT.kernel
        if not p.alive:
            self.fault_log.append((f["kind"], p.pid, "already-dead"))
            return
        if f["kind"] == "kill":
            died = k.deliver(p, f["sig"])
            k.fault_counts["kill:%s:%d" % (p.role, f["sig"])] += 1
            self.fault_log.append(("kill", p.pid, f["sig"], died, p.nops, round(k.s.now, 6), k.s.steps))
            k.log.append(("fault-kill", p.pid, f["sig"], died))
        elif f["kind"] == "rss":
            p.rss += f["bytes"]
            k.fault_counts["rss"] += 1

    def on_step(self, sched, nxt):
        for m in self.monitors:
            m(self)
        if self.state_fn is not None:
            self.states.add(self.state_fn(self))


class Result:
    pass


_WARM = [False]


def warm_up():
    """import, for real, everything loky or the stdlib may import lazily, so
    that no shared module is ever first imported while fakes are visible."""
    if _WARM[0]:
        return
    if rt.REPO not in sys.path:
        sys.path.insert(0, rt.REPO)
    import argparse, runpy, tempfile, subprocess, shutil, textwrap, struct, socket, _socket  # noqa
    import pickle, copyreg, functools, itertools, weakref, queue, traceback, logging, selectors  # noqa
    import concurrent.futures, concurrent.futures.process, concurrent.futures.thread  # noqa
    import cloudpickle, cloudpickle.cloudpickle  # noqa
    import psutil  # noqa
    import multiprocessing, multiprocessing.connection, multiprocessing.queues, multiprocessing.util  # noqa
    import multiprocessing.synchronize, multiprocessing.resource_tracker, multiprocessing.spawn  # noqa
    import multiprocessing.resource_sharer, multiprocessing.reduction, multiprocessing.pool  # noqa
    import ctypes, multiprocessing.sharedctypes, multiprocessing.heap, multiprocessing.managers  # noqa
    import multiprocessing.popen_fork, multiprocessing.popen_spawn_posix, multiprocessing.popen_forkserver  # noqa
    import multiprocessing.forkserver, multiprocessing.shared_memory  # noqa
    import loky, loky.backend.popen_loky_posix, loky.backend.resource_tracker  # noqa
    import loky.backend.fork_exec, loky.backend.utils, loky.cloudpickle_wrapper  # noqa
    import hmac, secrets, random, bisect, math, json, zlib, array, mmap, signal, atexit, faulthandler  # noqa
    import encodings.ascii, encodings.utf_8, encodings.latin_1, encodings.idna  # noqa
    if real_os.path.realpath(loky.__file__).startswith(real_os.path.realpath(rt.REPO)) is False:
        raise sk.HarnessError("loky imported from %s, not from %s" % (loky.__file__, rt.REPO))
    _WARM[0] = True


def loky_fingerprint():
    h = hashlib.sha256()
    base = real_os.path.join(rt.REPO, "loky")
    for d, _, fs in sorted(real_os.walk(base)):
        for f in sorted(fs):
            if f.endswith(".py"):
                h.update(f.encode())
                h.update(open(real_os.path.join(d, f), "rb").read())
    return h.hexdigest()[:16]


def run_sim(spec, program, replay=None, lenient=False, wall_limit=60.0):
    """Run `program(run)` as the main thread of a simulated root process.

    spec: dict(seed, knobs, model, env, faults, ...).  Returns a Result.
    """
    warm_up()
    t_wall = real_time.time()
    dec = sk.Decisions(spec["seed"], replay=replay, lenient=lenient)
    sched = sk.Sched(dec, spec.get("knobs"))
    run = Run(spec)
    k = sk.Kernel(sched, pipe_cap=run.model["pipe_cap"])
    R = rt.RT
    R.sched, R.kernel, R.run = sched, k, run
    sched.on_task_start, sched.on_task_end = rt.on_task_start, rt.on_task_end
    sched.on_switch = lambda t: rt.install(t.proc)
    if run.faults:
        sched.on_op = run.on_op
    sched.on_step = run.on_step
    env = {"LOKY_MAX_CPU_COUNT": str(run.model["cpu"]), "PATH": "/sim/bin"}
    env.update(spec.get("env") or {})
    root = k.new_proc(1, env, ["python", "/simcwd/user_script.py"])
    root.role = "root"
    root.info["depth"] = 0
    main_mod = type(sys)("__main__")
    main_mod.__file__ = "/simcwd/user_script.py"
    main_mod.__spec__ = None
    root.info["main_module"] = main_mod
    run.procs_by_role["root"].append(root)
    res = Result()
    res.program_exc = None

    def main():
        code = 0
        try:
            rt.boot_modules(root)
            program(run)
        except sk.SimKilled:
            raise
        except SystemExit as e:
            code = rt._exit_code_of(e)
        except BaseException as e:  # uncaught exception in the user's program
            res.program_exc = (type(e).__name__, str(e)[:300], traceback.format_exc()[-1500:])
            code = 1
        rt.interpreter_exit(root, code)

    saved_argv = sys.argv
    modnames_before = set(sys.modules)
    rt.patch_threading()
    gc.disable()
    warnings_filters = list(__import__("warnings").filters)
    __import__("warnings").simplefilter("always")
    root.overlay = None
    try:
        root.overlay = rt._overlay(root)
        root.modules = {}
        try:
            out = sched.run(root, main)
        except sk.ReplayDivergence as e:   # raised on the driver thread only if pick() runs there
            out = "replay_divergence"
            sched.harness_error = str(e)
    finally:
        rt.install(None)
        try:
            pe_ = root.modules.get("loky.process_executor")
            res.root_global_shutdown = bool(pe_ is not None and pe_._global_shutdown)
        except Exception:
            res.root_global_shutdown = False
        __import__("warnings").filters[:] = warnings_filters
        sys.argv = saved_argv
        for p in k.procs.values():
            p.modules.clear()
            if p.overlay:
                p.overlay.clear()
        try:
            rt.safe_collect()
        finally:
            rt.unpatch_threading()
            gc.enable()
        R.sched = R.kernel = R.run = None
    new_mods = sorted(n for n in set(sys.modules) - modnames_before if not rt._is_mine(n))
    # contamination guard: a loky/multiprocessing module first imported *during* the run saw the real os
    late = sorted(set(n for p in k.procs.values() for n in getattr(p, "late_modules", ())))
    if late:
        new_mods = new_mods + ["late:" + n for n in late]
    res.outcome = out
    res.sched = sched
    res.kernel = k
    res.run = run
    res.obs = run.obs
    res.spec = spec
    res.decisions = dec.log
    res.diverged = dec.diverged
    res.new_modules = new_mods
    res.wall = real_time.time() - t_wall
    res.harness_error = sched.harness_error
    if sched.leaked_threads:
        res.harness_error = (res.harness_error or "") + " leaked_threads=%d" % sched.leaked_threads
    if new_mods:
        res.harness_error = (res.harness_error or "") + " modules imported during run: %s" % new_mods
    return res


def digest_of(res):
    """full event digest used by the determinism self-test."""
    h = hashlib.sha256()
    h.update(repr(res.outcome).encode())
    h.update(repr(res.decisions).encode())
    h.update(repr(res.kernel.log).encode())
    h.update(repr([(e.get("op"), e.get("phase"), e.get("thread"), e.get("i"), round(e["now"], 9),
                    e.get("r")) for e in res.obs.events]).encode())
    h.update(repr([(t.tid, t.role, t.proc.pid, t.nops) for t in res.sched.tasks]).encode())
    h.update(repr(sorted((repr(d["task"]), d["pid"], round(d["t0"], 9)) for d in res.obs.exec_log)).encode())
    h.update(repr((res.sched.steps, round(res.sched.now, 9))).encode())
    return h.hexdigest()[:20]
