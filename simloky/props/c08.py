"""C08 - parallelism never exceeds max_workers and is actually delivered."""
from .base import Prop, V, gen_knobs, gen_model, submit_op, hang_violations
from . import execfam as X
from .. import runtime as rt


def monitor(run):
    k = rt.RT.kernel
    procs = k.procs
    counts = {}
    for pid, (exn, _) in run.active_bodies.items():
        if procs[pid].alive:
            counts[exn] = counts.get(exn, 0) + 1
    for n, info in run.obs.executors.items():
        bound = max([info["base"]] + (run.inflight_all if info["kind"] == "reusable" else []))
        c = counts.get(n, 0)
        reg = len(info["processes"])
        if c > bound and not run.monitor_violations:
            run.monitor_violations.append(("bodies", n, c, bound, k.s.steps))
        if reg > bound and not run.monitor_violations:
            run.monitor_violations.append(("registered", n, reg, bound, k.s.steps))


def gen(rng, tier):
    mode = rng.choice(["plain", "reusable", "reusable"])
    workers = rng.randint(1, 4)
    nthreads = rng.choice([1, 1, 2, 3])
    timeout = rng.choice([None, 10.0, 0.2, 0.02, 0.0])
    threads = [[] for _ in range(nthreads)]
    main = threads[0]
    deliver = rng.random() < 0.4
    if deliver:
        nthreads = 1
        threads = [main]
    if mode == "plain":
        main.append({"op": "create", "ex": "A", "kw": {"max_workers": workers, "timeout": timeout}})
    main.append({"op": "start_users"})
    fid = 0
    if deliver:
        if mode == "reusable":
            main.append({"op": "reusable", "ex": "A", "kw": {"max_workers": workers, "timeout": timeout or 10.0}})
        race = timeout and rng.random() < 0.3
        if race:
            # "every submit tops the pool back up", also the last one of a burst: the workers have been idle for
            # (about) their time-out when the burst arrives, and its last submit is delayed at one source line
            for _ in range(rng.randint(1, 3)):
                main.append(submit_op("A", fid, dict(id=fid, kind="work", dur=rng.choice([0, 0.01])), []))
                fid += 1
            main.append({"op": "wait_all"})
            main.append({"op": "sleep", "d": max(0.0, timeout + rng.choice([0.0, 0.0, -0.0005, -0.001]))})
            extra = rng.choice([0, 0, 1])
        else:
            # optional history before saturating: short tasks, idle periods (time-outs), a resize
            for _ in range(rng.randint(0, 3)):
                main.append(submit_op("A", fid, dict(id=fid, kind="work", dur=rng.choice([0, 0.01])), []))
                fid += 1
            if rng.random() < 0.6:
                main.append({"op": "wait_all"})
                if timeout and rng.random() < 0.6:
                    # workers have been idle for exactly their time-out when the saturating burst arrives
                    main.append({"op": "sleep", "d": timeout + rng.choice([0.0, 0.0, -0.001, 0.001])})
                else:
                    main.append({"op": "sleep", "d": rng.choice([0.01, 0.5, 12.0])})
            if mode == "reusable" and rng.random() < 0.5:
                workers = rng.randint(1, 4)
                main.append({"op": "reusable", "ex": "A", "kw": {"max_workers": workers, "timeout": timeout or 10.0}})
            extra = rng.randint(0, 3)
        for _ in range(workers + extra):
            main.append(dict(submit_op("A", fid, dict(id=fid, kind="work", dur=100.0, sat=True), []), keep=True))
            fid += 1
        if race:
            main[-1]["arm"] = True
        main.append({"op": "wait_all"})
        main.append({"op": "shutdown", "ex": "A", "wait": True})
        kn = gen_knobs(rng, tier)
        kn["J"] = min(kn["J"], 1.0)     # delivery is stated for scheduling delays far below the 100 s task length
        if race:
            kn.pop("hot", None), kn.pop("pct_at", None)
            kn["pct"] = 0
            kn["line_at"] = {"func": "submit", "n": rng.randint(1, 30), "armed": True}
        elif rng.random() < 0.35 and not kn.get("pct") and not kn.get("pct_at"):
            # "every submit tops the pool back up": delay the submitting or the managing thread at one line
            kn.pop("hot", None)
            kn["line_at"] = {"func": rng.choice(["submit", "submit", "process_result_item", "_adjust_process_count",
                                                 "_ensure_executor_running", "add_call_item_to_queue"]),
                             "n": rng.randint(1, 70)}
        return dict(family="parallel", knobs=kn, model=gen_model(rng), threads=threads,
                    faults=[], deliver=workers)
    for th in range(nthreads):
        ops = threads[th]
        if mode == "reusable":
            ops.append({"op": "reusable", "ex": "A", "kw": {"max_workers": rng.randint(1, 4), "timeout": timeout or 10.0}})
        for _ in range(rng.randint(1, 8)):
            ops.append(submit_op("A", fid, dict(id=fid, kind="work", dur=rng.choice([0, 0.01, 0.1, 1.0])), []))
            fid += 1
            r = rng.random()
            if r < 0.25 and mode == "reusable":
                ops.append({"op": "reusable", "ex": "A", "kw": {"max_workers": rng.randint(1, 4), "timeout": timeout or 10.0}})
            elif r < 0.45:
                ops.append({"op": "sleep", "d": rng.choice([0.001, 0.03, 0.3, 1.5])})
        ops.append({"op": "wait_all"})
    if nthreads > 1:
        main.append({"op": "join_users"})
    main.append({"op": "shutdown", "ex": "A", "wait": True})
    return dict(family="parallel", knobs=gen_knobs(rng, tier), model=gen_model(rng), threads=threads, faults=[],
                deliver=None)


class C08(Prop):
    id = "C08"
    track_states = True
    quick_runs = 2000
    thorough_runs = 40000
    assumptions = ["the bound is checked after every scheduler step on harness-visible state: bodies executing "
                   "(instrumented tasks) and len(executor._processes)",
                   "bound = largest max_workers in force since the last completed resize, tracked from API call/return events"]

    def gen(self, rng, tier):
        return gen(rng, tier)

    def program(self, spec):
        from .. import program as prog

        def program(run):
            run.monitors.append(monitor)
            prog.Interp(run, spec).main()
        return program

    def check(self, res):
        pid = self.id
        out = []
        for kind, n, c, bound, step in res.run.monitor_violations:
            out.append(V(pid, "C08/bound-exceeded/%s" % kind,
                         "%s=%d > max_workers bound %d for executor %d at step %d" % (kind, c, bound, n, step)))
        out += hang_violations(res, pid)
        if out or not X.conclusive(res):
            return out
        want = res.spec.get("deliver")
        if want:
            n = max(res.obs.executors)          # the executor that ran the saturating batch
            sat = [r for r in res.obs.futures.values() if r["task"].get("sat")]
            exn = sat[0]["exn"] if sat else n
            peak_sat = 0
            # peak number of saturating bodies running simultaneously, from the execution log
            evs = []
            ids = {r["task"]["id"] for r in sat}
            for e in res.obs.exec_log:
                if e["task"] in ids and e["t1"] is not None:
                    evs.append((e["t0"], 1))
                    evs.append((e["t1"], -1))
            cur = 0
            for t, d in sorted(evs, key=lambda x: (x[0], x[1])):
                cur += d
                peak_sat = max(peak_sat, cur)
            if len(sat) >= want and peak_sat != want:
                out.append(V(pid, "C08/parallelism-not-delivered", "max_workers=%d, %d long tasks pending, peak simultaneous bodies %d" % (want, len(sat), peak_sat)))
        return out

    def features(self, res):
        f = {}
        if res.spec.get("deliver"):
            f["deliver-%d" % res.spec["deliver"]] = 1
        for n, c in res.run.peak_bodies.items():
            f["peak-%d" % min(c, 5)] = 1
        return f


PROP = C08()
