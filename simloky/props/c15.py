"""C15 - serialisation customisation is scoped to where it was requested and is faithful."""
import functools
import sys

from .base import Prop, V, gen_knobs, gen_model, submit_op, hang_violations, fut_state
from . import execfam as X
from .. import program as prog
from .. import runtime as rt
from .. import tasks


# ---- payload callables exercised through loky's built-in reducers (module level: importable by plain pickle)
class Acc:
    def __init__(self, base):
        self.base = base

    def add(self, x, y=0):
        return ["acc", self.base, x, y]

    @classmethod
    def make(cls, x):
        return ["cls", cls.__name__, x]

    def __eq__(self, o):
        return isinstance(o, Acc) and o.base == self.base


def plain(a, b=0, *, c=0):
    return ["plain", a, b, c]


def build_callable(desc):
    k = desc[0]
    if k == "bound":
        return Acc(desc[1]).add, (desc[2],), {}
    if k == "bound_kw":
        return Acc(desc[1]).add, (desc[2],), {"y": desc[3]}
    if k == "classmethod":
        return Acc.make, (desc[1],), {}
    if k == "descriptor":
        return str.upper, (desc[1],), {}
    if k == "descriptor2":
        return list.count, ([1, 2, 1], 1), {}
    if k == "partial":
        return functools.partial(plain, desc[1], c=desc[2]), (), {"b": desc[3]}
    if k == "partial_bound":
        return functools.partial(Acc(desc[1]).add, y=desc[2]), (desc[3],), {}
    raise ValueError(desc)


def run_callable(fid, desc, *marked):
    """worker side: log like any task, then call the rebuilt callable."""
    raise NotImplementedError


def call_rebuilt(ts, fn, args, kwargs, *marked):
    tasks.call(dict(ts, kind="work"))
    return fn(*args, **kwargs)


CALLABLES = [["bound", 3, 4], ["bound_kw", 1, 2, 9], ["classmethod", 5], ["descriptor", "abc"], ["descriptor2"],
             ["partial", 1, 2, 3], ["partial_bound", 7, 8, 9]]


def gen(rng, tier):
    threads = [[] for _ in range(rng.choice([1, 1, 2]))]
    main = threads[0]
    nex = rng.randint(1, 3)
    exs = []
    order = list(range(nex))
    rng.shuffle(order)
    for i in order:
        kw = {"max_workers": rng.randint(1, 2), "timeout": rng.choice([None, 10.0])}
        r = rng.random()
        if r < 0.4:
            kw["job_reducers"] = "J%d" % i
        elif r < 0.6:
            kw["job_reducers"] = "J%d" % i
            kw["result_reducers"] = "R%d" % i
        elif r < 0.7:
            kw["result_reducers"] = "R%d" % i
        if rng.random() < 0.3 and not any(o["op"] == "reusable" for o in main):
            main.append({"op": "reusable", "ex": "E%d" % i, "kw": dict(kw, timeout=10.0)})
        else:
            main.append({"op": "create", "ex": "E%d" % i, "kw": kw})
        exs.append(("E%d" % i, kw))
    main.append({"op": "start_users"})
    fid = 0
    for th in range(len(threads)):
        ops = threads[th]
        for _ in range(rng.randint(1, 6)):
            ex, kw = rng.choice(exs)
            r = rng.random()
            if r < 0.2:
                ops.append({"op": "set_pickler", "name": rng.choice(["pickle", "cloudpickle", None, ""])})
            if r < 0.45:
                ops.append({"op": "submit", "ex": ex, "f": fid, "task": {"id": fid, "kind": "work", "dur": rng.choice([0, 0.01])},
                            "args": [["marked", fid]]})
            elif r < 0.7:
                ops.append({"op": "submit", "ex": ex, "f": fid, "task": {"id": fid, "kind": "retmarked", "dur": 0}})
            else:
                ops.append({"op": "submit_callable", "ex": ex, "f": fid, "desc": rng.choice(CALLABLES), "id": fid})
            fid += 1
            if rng.random() < 0.3:
                ops.append({"op": "set_pickler", "name": rng.choice(["pickle", "cloudpickle", None])})
        ops.append({"op": "wait_all"})
    if len(threads) > 1:
        main.append({"op": "join_users"})
    for ex, _ in exs:
        main.append({"op": "shutdown", "ex": ex, "wait": True})
    return dict(family="pickling", knobs=gen_knobs(rng, tier), model=gen_model(rng), threads=threads, faults=[],
                exs={e: k for e, k in exs})


class Interp15(prog.Interp):
    def op_submit_callable(self, th, o):
        ex = self.slots[o["ex"]]
        fn, args, kwargs = build_callable(o["desc"])
        ts = dict(id=o["id"], kind="work", ex=o["ex"])
        red = sys.modules["loky.backend.reduction"]
        rec = dict(fid=o["f"], task=dict(ts, kind="callable", desc=o["desc"]), ex=o["ex"], thread=th, args=[], fut=None,
                   submitted=False, pickler_at_submit=red.get_loky_pickler_name(), cancel=None, exn=None,
                   expected=prog._js(fn(*args, **kwargs)))
        for n, info in self.obs.executors.items():
            if info["wref"]() is ex:
                rec["exn"] = n
        ts["exn"] = rec["exn"]
        self.obs.futures[o["f"]] = rec
        f = ex.submit(call_rebuilt, ts, fn, args, kwargs)
        rec["fut"] = f
        rec["submitted"] = True
        rec["pickler_after_submit"] = red.get_loky_pickler_name()
        self.futs[o["f"]] = f
        self.by_thread.setdefault(th, []).append(o["f"])
        return {}


def tables():
    import copyreg
    import cloudpickle
    red = sys.modules["loky.backend.reduction"]
    def snap(d):
        return sorted((getattr(k, "__qualname__", repr(k)), getattr(v, "__qualname__", repr(v))) for k, v in dict(d).items())
    return dict(copyreg=snap(copyreg.dispatch_table), cloudpickle=snap(cloudpickle.CloudPickler.dispatch_table),
                loky=snap(red._dispatch_table))


class C15(Prop):
    id = "C15"
    quick_runs = 1500
    thorough_runs = 30000
    claim = ("objects really travel: parent dumps(obj, reducers) in the feeder thread -> simulated pipe -> worker "
             "loads, results back through SimpleQueue.put with the result reducers; seeded search over orders of "
             "creating plain and reusable executors with different job/result reducer maps, payloads targeted by a "
             "reducer, callables built from bound methods, class methods, method descriptors and functools.partial "
             "with keywords, and set_loky_pickler calls interleaved with submit from 1-2 threads (the interleaving "
             "with the manager thread that builds the _CallItem is the scheduler's); logging reducers give the exact "
             "set of (reducer, object, process) firings; process-wide tables are snapshotted before and after")
    assumptions = ["the schedule-dependent clause is 'pickler selected at submit == pickler used by the worker'; the other "
                   "clauses are invariants observed along the same simulated runs"]

    def gen(self, rng, tier):
        return gen(rng, tier)

    def program(self, spec):
        def program(run):
            run.obs.data["tables_before"] = tables()
            try:
                Interp15(run, spec).main()
            finally:
                run.obs.data["tables_after"] = tables()
                run.obs.data["reducer_log"] = list(prog.REDUCER_LOG)
        return program

    def check(self, res):
        pid = self.id
        out = hang_violations(res, pid)
        if out or not X.conclusive(res):
            return out
        d = res.obs.data
        for name in ("copyreg", "cloudpickle", "loky"):
            if d["tables_before"][name] != d["tables_after"][name]:
                a, b = set(map(tuple, d["tables_before"][name])), set(map(tuple, d["tables_after"][name]))
                out.append(V(pid, "C15/process-wide-table-modified/%s" % name, "added %r removed %r" % (sorted(b - a)[:4], sorted(a - b)[:4])))
        exs = res.spec["exs"]
        log = d.get("reducer_log", [])
        # expected firings
        exp = []
        for fid, rec in res.obs.futures.items():
            if not rec.get("submitted"):
                continue
            kw = exs[rec["ex"]]
            jr = kw.get("job_reducers")
            rr = kw.get("result_reducers") or jr
            st, payload = fut_state(rec)
            for a in rec.get("args", []):
                if a[0] == "marked" and jr:
                    exp.append((jr, a[1], "parent"))
            if rec["task"].get("kind") == "retmarked" and rr and st == "value":
                exp.append((rr, rec["task"]["id"], "worker"))
        got = [(n, tag, "parent" if p_ == 100 else "worker") for n, tag, p_, role in log]
        if sorted(got) != sorted(exp):
            extra = sorted(set(got) - set(exp))
            missing = sorted(set(exp) - set(got))
            out.append(V(pid, "C15/reducer-firings-differ/%s" % ("extra" if extra else "missing"),
                         "unexpected firings %r, missing firings %r" % (extra[:5], missing[:5])))
        # values: marked args round trip through the right reducer, results too, callables behave like the originals
        for fid, rec in res.obs.futures.items():
            if not rec.get("submitted"):
                continue
            st, payload = fut_state(rec)
            kw = exs[rec["ex"]]
            kind = rec["task"].get("kind")
            if st != "value":
                out.append(V(pid, "C15/task-failed/%s" % (payload["type"] if st == "exc" else st), "task %r (%s): %r" % (fid, kind, payload)))
                continue
            if kind == "retmarked":
                rr = kw.get("result_reducers") or kw.get("job_reducers")
                if payload != ["marked", rec["task"]["id"], rr]:
                    out.append(V(pid, "C15/result-not-reduced-as-configured", "task %r: got %r expected via %r" % (fid, payload, rr)))
            elif kind == "callable":
                if payload != rec["expected"]:
                    out.append(V(pid, "C15/callable-round-trip-differs/%s" % rec["task"]["desc"][0], "got %r expected %r" % (payload, rec["expected"])))
        # pickler selected at submit time is the one the worker uses
        by_task = {repr(e["task"]): e for e in res.obs.exec_log}
        for fid, rec in res.obs.futures.items():
            e = by_task.get(repr(rec["task"]["id"]))
            if e is None or not rec.get("submitted"):
                continue
            allowed = {rec["pickler_at_submit"], rec.get("pickler_after_submit")}
            # another thread may switch the pickler while submit() is running: any value in force during the call is fine
            sub = [x for x in res.obs.events if x["op"] in ("submit", "submit_callable") and x["o" if "o" in x else "op"] and x.get("o", {}).get("f") == fid]
            callseq = [x["seq"] for x in res.obs.events if x["phase"] == "call" and x["op"] in ("submit", "submit_callable")
                       and any(y["seq"] > x["seq"] and y["thread"] == x["thread"] and y["i"] == x["i"] and y.get("o", {}).get("f") == fid
                               for y in res.obs.events if y["phase"] in ("ret", "exc"))]
            retseq = [y["seq"] for y in res.obs.events if y["phase"] in ("ret", "exc") and y.get("o", {}).get("f") == fid
                      and y["op"] in ("submit", "submit_callable")]
            if callseq and retseq:
                lo, hi = min(callseq), max(retseq)
                calls = {(x["thread"], x["i"]): x["seq"] for x in res.obs.events if x["op"] == "set_pickler" and x["phase"] == "call"}
                for y in res.obs.events:
                    if y["op"] == "set_pickler" and y["phase"] == "ret":
                        c = calls.get((y["thread"], y["i"]), y["seq"])
                        if c <= hi and y["seq"] >= lo:
                            allowed.add(y["o"]["name"] or "cloudpickle")
            if e["pickler"] not in allowed:
                out.append(V(pid, "C15/worker-uses-another-pickler", "task %r submitted under %r ran under %r" % (fid, rec["pickler_at_submit"], e["pickler"])))
                break
        return out

    def features(self, res):
        f = {}
        for n, tag, p_, role in res.obs.data.get("reducer_log", []):
            f["reducer-fired-in-%s" % ("parent" if p_ == 100 else "worker")] = f.get("reducer-fired-in-%s" % ("parent" if p_ == 100 else "worker"), 0) + 1
        for rec in res.obs.futures.values():
            if rec["task"].get("kind") == "callable":
                f["callable:" + rec["task"]["desc"][0]] = 1
        for e in res.obs.events:
            if e["op"] == "set_pickler" and e["phase"] == "ret":
                f["set_pickler:%s" % e["o"]["name"]] = 1
        return f


PROP = C15()
