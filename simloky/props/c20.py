"""C20 - executor lifecycles leak no parent-side resources."""
from .base import Prop, V, gen_knobs, gen_model, submit_op, hang_violations
from . import execfam as X


def lifecycle(rng, tag, fid0):
    """one executor lifecycle as an op list (slot names are reused by each repetition)."""
    ops = []
    kind = rng.choice(["plain", "plain", "reusable", "nested", "broken", "killed", "timeout"])
    fid = fid0
    if kind in ("plain", "nested", "broken", "killed", "timeout"):
        kw = {"max_workers": rng.randint(1, 3), "timeout": rng.choice([None, 10.0]) if kind != "timeout" else 0.05}
        ops.append({"op": "create", "ex": "L", "kw": kw, "keep": True})
        for _ in range(rng.randint(0, 4)):
            if kind == "nested" and rng.random() < 0.5:
                ts = dict(id=fid, kind="nested", dur=0, nested=dict(workers=1, sub=[dict(id=fid + 500, kind="work", dur=0)]))
            elif kind == "broken" and rng.random() < 0.4:
                ts = dict(id=fid, kind=rng.choice(["exit", "kill", "bad_result_rebuild"]), dur=0, code=3, sig=9)
            else:
                ts = dict(id=fid, kind="work", dur=rng.choice([0, 0.01, 0.1]))
            ops.append(submit_op("L", fid, ts, []))
            fid += 1
        if kind == "timeout":
            ops.append({"op": "wait_all"})
            ops.append({"op": "sleep", "d": 0.5})
            ops.append(submit_op("L", fid, dict(id=fid, kind="work", dur=0), []))
            fid += 1
        if kind == "killed":
            if rng.random() < 0.4:
                # the workers have live descendants (a busy nested executor) when they are killed
                ops.append(submit_op("L", fid, dict(id=fid, kind="nested", dur=0,
                                                    nested=dict(workers=1, sub=[dict(id=fid + 500, kind="work", dur=1e4)])), []))
                fid += 1
            ops.append(submit_op("L", fid, dict(id=fid, kind="work", dur=1e4), []))
            fid += 1
            if rng.random() < 0.25:
                # a backlog of unsent calls larger than the pipe: the feeder is blocked in send_bytes at the kill
                for _ in range(rng.randint(2, 4)):
                    ops.append(submit_op("L", fid, dict(id=fid, kind="work", dur=0), [["big", 70000]]))
                    fid += 1
            ops.append({"op": "sleep", "d": rng.choice([0.0, 0.05, 0.5])})
            ops.append({"op": "shutdown", "ex": "L", "wait": True, "kill": True, "keep": True})
        else:
            ops.append({"op": "wait_all"})
            ops.append({"op": rng.choice(["shutdown", "with"]), "ex": "L", "wait": True, "keep": True})
        ops.append({"op": "wait_all", "which": "all", "keep": True})
        ops.append({"op": "del", "ex": "L", "keep": True})
    else:
        kw = {"max_workers": rng.randint(1, 3), "timeout": rng.choice([10.0, 0.05])}
        ops.append({"op": "reusable", "ex": "L", "kw": kw, "keep": True})
        for _ in range(rng.randint(0, 3)):
            ops.append(submit_op("L", fid, dict(id=fid, kind="work", dur=rng.choice([0, 0.01])), []))
            fid += 1
        if rng.random() < 0.6:
            ops.append({"op": "reusable", "ex": "L", "kw": dict(kw, max_workers=rng.randint(1, 3))})
            ops.append(submit_op("L", fid, dict(id=fid, kind="work", dur=0), []))
            fid += 1
        ops.append({"op": "wait_all"})
        ops.append({"op": "shutdown", "ex": "L", "wait": True, "kill": rng.random() < 0.2, "keep": True})
        ops.append({"op": "del", "ex": "L", "keep": True})
    return ops, fid


def gen(rng, tier):
    n = rng.randint(1, 3)
    hist = []
    fid = 0
    seed_state = rng.getstate()
    import random
    sub = random.Random(rng.random())
    for i in range(n):
        ops, fid = lifecycle(sub, i, fid)
        hist += ops
    k = rng.choice([2, 3, 5])
    kn = gen_knobs(rng, tier, line=False)
    kn["J"] = min(kn["J"], 1.0)        # the 40 s settle time after each repetition must dominate the starvation bound
    return dict(family="leak", knobs=kn, model=gen_model(rng), ops=hist, faults=[],
                reps=k, hold_refs=True, nlife=n)


def expand(spec):
    hist = spec["ops"]
    main = []
    # repetition 0 warms up the process-wide singletons (tracker, reusable executor module state)
    for rep in range(spec["reps"] + 1):
        for o in hist:
            o2 = dict(o)
            if "f" in o2:
                o2["f"] = "r%d_%s" % (rep, o["f"])
                if "task" in o2:
                    o2["task"] = dict(o["task"], id=rep * 100000 + o["task"]["id"])
                    if o2["task"].get("nested"):
                        ns = dict(o2["task"]["nested"])
                        ns["sub"] = [dict(s, id=rep * 100000 + s["id"]) for s in ns["sub"]]
                        o2["task"]["nested"] = ns
            main.append(o2)
        main.append({"op": "sleep", "d": 40.0})       # let clean exits and reaping finish
        main.append({"op": "gc"})
        main.append({"op": "snapshot", "tag": rep})
    return [main]


class C20(Prop):
    id = "C20"
    track_states = True
    quick_runs = 400
    thorough_runs = 12000
    claim = ("generated lifecycle histories (plain / reusable with resize / nested / broken by a crashing task / "
             "kill_workers, also of workers that have live descendants / idle time-outs) are run once and then k in {2,3,5} more times in the same simulated parent, "
             "each repetition followed by release and collection; exact counts from the kernel model - open descriptors "
             "of the parent, its live threads, its children including zombies, semaphore names it owns - must be the "
             "same after the last repetition as after the first")
    assumptions = ["before each count the harness calls multiprocessing.active_children() (which makes multiprocessing forget "
                   "finished Process objects it still references) and collects garbage",
                   "the first repetition is a warm-up: the tracker process and its pipe, started on first use, are not counted",
                   "collection after release is an explicit, scheduled operation (two-phase gc.collect)"]

    def gen(self, rng, tier):
        return gen(rng, tier)

    def program(self, spec):
        from .. import program as prog
        full = dict(spec, threads=expand(spec))

        def program(run):
            prog.Interp(run, full).main()
        return program

    def check(self, res):
        pid = self.id
        out = hang_violations(res, pid)
        if out or not X.conclusive(res):
            return out
        snaps = res.obs.data.get("snapshots") or []
        if len(snaps) < 3:
            return out
        base = snaps[1]
        last = snaps[-1]
        stuck = last.get("feeders_in_write", 0)
        for key in ("fds", "tasks", "children", "sems"):
            if last[key] != base[key]:
                vals = [s[key] for s in snaps]
                why = ""
                if stuck and stuck >= last["tasks"] - base["tasks"] > 0:
                    why = "/feeder-blocked-in-send"
                out.append(V(pid, "C20/leak/%s%s" % (key, why), "%s after each repetition: %r (repetition 0 is the warm-up)%s" % (
                    key, vals, "; %d feeder threads blocked writing to a call-queue pipe nobody reads" % stuck if why else "")))
        return out

    def features(self, res):
        f = {"reps-%d" % res.spec["reps"]: 1, "lifecycles-%d" % res.spec["nlife"]: 1}
        if any(i["flags"].broken is not None for i in res.obs.executors.values()):
            f["broken-lifecycle"] = 1
        if any(i["kind"] == "reusable" for i in res.obs.executors.values()):
            f["reusable-lifecycle"] = 1
        return f


PROP = C20()
