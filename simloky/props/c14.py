"""C14 - synchronisation primitives keep their contracts under every interleaving.

System under test: the real loky/backend/synchronize.py over the simulated
SemLock, used by threads of the root process and by simulated child processes
that received pickled copies through a real LokyProcess spawn."""
import threading

from .base import Prop, V, gen_knobs
from .. import runtime as rt
from .. import kernel as sk


# ---------------------------------------------------------------- party code (runs in any sim process)
def _log(run, **kw):
    s = rt.RT.sched
    kw["now"] = s.now
    kw["step"] = s.steps
    run.obs.data.setdefault("log", []).append(kw)
    return kw


def run_party(prim, pid_, script, shared):
    """interpret a party script against primitive `prim`."""
    R = rt.RT
    s = R.sched
    run = R.run
    cap = shared["cap"]
    st = run.obs.data.setdefault("cs", {"inside": 0, "max": 0, "viol": []})
    for op in script:
        k = op[0]
        t0, s0 = s.now, s.steps
        try:
            if k == "lock":          # acquire (mode) / critical section / release
                mode, d, depth = op[1], op[2], op[3]
                got = 0
                for _ in range(depth):
                    if mode == "block":
                        r = prim.acquire()
                    elif mode == "try":
                        r = prim.acquire(False)
                    else:
                        r = prim.acquire(True, mode)
                    if not r:
                        break
                    got += 1
                ok = got == depth
                if ok:
                    st["inside"] += 1
                    st["max"] = max(st["max"], st["inside"])
                    if st["inside"] > cap:
                        st["viol"].append((pid_, st["inside"], s.steps))
                    if d is not None:
                        s.sleep(d)
                    st["inside"] -= 1
                for _ in range(got):
                    prim.release()
                _log(run, party=pid_, op="lock", mode=mode, r=ok, t0=t0, s0=s0)
            elif k == "wait":
                timeout = op[1]
                with prim:
                    run.obs.data["asleep"] = run.obs.data.get("asleep", 0) + 1
                    r = prim.wait(timeout)
                    run.obs.data["asleep"] -= 1
                    mine = prim._lock._semlock._is_mine()
                _log(run, party=pid_, op="wait", timeout=timeout, r=r, t0=t0, s0=s0, holds_lock=mine,
                     phase=run.obs.data.get("phase", 0))
            elif k == "notify":
                with prim:
                    prim.notify()
                _log(run, party=pid_, op="notify", t0=t0, s0=s0)
            elif k == "notify_all":
                with prim:
                    prim.notify_all()
                _log(run, party=pid_, op="notify_all", t0=t0, s0=s0)
            elif k == "set":
                prim.set()
                _log(run, party=pid_, op="set", t0=t0, s0=s0)
            elif k == "clear":
                prim.clear()
                _log(run, party=pid_, op="clear", t0=t0, s0=s0)
            elif k == "ewait":
                run.obs.data.setdefault("in_ewait", {})[pid_] = (s.steps, op[1])
                try:
                    r = prim.wait(op[1])
                finally:
                    run.obs.data["in_ewait"].pop(pid_, None)
                _log(run, party=pid_, op="ewait", timeout=op[1], r=r, t0=t0, s0=s0)
            elif k == "is_set":
                r = prim.is_set()
                _log(run, party=pid_, op="is_set", r=r, t0=t0, s0=s0)
            elif k == "sleep":
                s.sleep(op[1])
        except sk.SimKilled:
            raise
        except BaseException as e:  # noqa
            if s.teardown or s.cur().killed:
                raise sk.SimKilled()
            _log(run, party=pid_, op=k, exc=type(e).__name__, msg=str(e)[:200], t0=t0, s0=s0)
    run.obs.data["done"] = run.obs.data.get("done", 0) + 1


def make_prim(ctx, kind, n):
    if kind == "Lock":
        return ctx.Lock(), 1
    if kind == "RLock":
        return ctx.RLock(), 1
    if kind == "Semaphore":
        return ctx.Semaphore(n), n
    if kind == "BoundedSemaphore":
        return ctx.BoundedSemaphore(n), n
    if kind == "Condition":
        return ctx.Condition(), 1
    if kind == "Event":
        return ctx.Event(), 1
    raise ValueError(kind)


# ---------------------------------------------------------------- generation
def gen(rng, tier):
    fam = rng.choice(["mutex", "mutex", "cond_counted", "cond_chaos", "cond_storm", "event"])
    nparties = rng.randint(2, 4)
    procs = [rng.random() < 0.35 for _ in range(nparties)]       # party runs in a child process
    spec = dict(family="sync", fam=fam, procs=procs, knobs=gen_knobs(rng, tier), model=dict(boot=rng.choice([0.0, 0.01])))
    spec["knobs"]["J"] = rng.choice([0.0, 0.001, 0.05, 1.0])
    spec["knobs"]["p_time"] = rng.choice([0.0, 0.05, 0.2])
    if fam == "mutex":
        kind = rng.choice(["Lock", "RLock", "Semaphore", "BoundedSemaphore"])
        n = rng.randint(1, 3) if "Semaphore" in kind else 1
        spec.update(kind=kind, n=n)
        scripts = []
        for _ in range(nparties):
            sc = []
            for _ in range(rng.randint(1, 4)):
                mode = rng.choice(["block", "block", "try", 0.0, 0.01, 1.0])
                depth = rng.randint(1, 3) if kind == "RLock" else 1
                sc.append(["lock", mode, rng.choice([None, 0.0, 0.01, 0.5]), depth])
                if rng.random() < 0.3:
                    sc.append(["sleep", rng.choice([0.0, 0.005, 0.3])])
            scripts.append(sc)
        spec["scripts"] = scripts
    elif fam == "cond_counted":
        W = rng.randint(1, 3)            # waiters that never time out
        T = rng.randint(0, 2)            # noise: waiters whose time-out may expire at any instant
        k = rng.randint(0, W)
        spec.update(kind="Condition", n=1, W=W, T=T, k=k,
                    timed=[rng.choice([0.0, 0.001, 0.01, 0.5, 2.0]) for _ in range(T)],
                    gap=rng.choice([0.0, 0.001, 0.5]))
        spec["procs"] = [rng.random() < 0.35 for _ in range(W + T)]
    elif fam == "cond_storm":
        # several waiters whose time-outs expire at the very instant of a notify / notify_all
        t = rng.choice([0.0, 0.001, 0.01, 0.2])
        nw = rng.randint(2, 4)
        spec.update(kind="Condition", n=1, t=t, nw=nw, how=rng.choice(["notify_all", "notify_all", "notify"]),
                    delta=rng.choice([0.0, 0.0, 0.0, 1e-4, -1e-4]), untimed=rng.randint(0, 1))
        spec["procs"] = [rng.random() < 0.3 for _ in range(nw + spec["untimed"])]
        spec["knobs"]["J"] = rng.choice([0.0, 0.001, 0.05])
    elif fam == "cond_chaos":
        spec.update(kind="Condition", n=1)
        scripts = []
        for _ in range(nparties):
            sc = []
            for _ in range(rng.randint(1, 4)):
                r = rng.random()
                if r < 0.5:
                    sc.append(["wait", rng.choice([0.0, 0.001, 0.01, 0.2, 1.0])])
                elif r < 0.75:
                    sc.append(["notify"])
                elif r < 0.9:
                    sc.append(["notify_all"])
                else:
                    sc.append(["sleep", rng.choice([0.0, 0.005, 0.3])])
            scripts.append(sc)
        spec["scripts"] = scripts
    else:
        spec.update(kind="Event", n=1)
        scripts = []
        for _ in range(nparties):
            sc = []
            for _ in range(rng.randint(1, 3)):
                r = rng.random()
                if r < 0.3:
                    sc.append(["set"])
                elif r < 0.5:
                    sc.append(["clear"])
                elif r < 0.8:
                    sc.append(["ewait", rng.choice([0.0, 0.01, 0.5, 1000.0, None, None])])
                elif r < 0.9:
                    sc.append(["is_set"])
                else:
                    sc.append(["sleep", rng.choice([0.0, 0.01, 0.6])])
            scripts.append(sc)
        spec["scripts"] = scripts
    return spec


def _start(ctx, prim, i, script, shared, in_proc):
    if in_proc:
        p = ctx.Process(target=run_party, args=(prim, i, script, shared))
        p.start()
        return p
    t = threading.Thread(target=run_party, args=(prim, i, script, shared), name="user%d" % i)
    t.start()
    return t


def program_of(spec):
    def program(run):
        from loky.backend import get_context
        ctx = get_context("loky")
        s = rt.RT.sched
        prim, cap = make_prim(ctx, spec["kind"], spec["n"])
        shared = dict(cap=cap)
        data = run.obs.data
        data["cap"] = cap
        fam = spec["fam"]
        if fam == "cond_counted":
            W, T, k = spec["W"], spec["T"], spec["k"]
            scripts = [[["wait", None]] for _ in range(W)] + [[["wait", t]] for t in spec["timed"]]
            parties = [_start(ctx, prim, i, sc, shared, spec["procs"][i]) for i, sc in enumerate(scripts)]
            # wait until every never-timing-out waiter is inside wait() (observed under the lock)
            for _ in range(400):
                with prim:
                    log = data.get("log", [])
                    timed_done = sum(1 for e in log if e["op"] == "wait" and e["timeout"] is not None)
                    if data.get("asleep", 0) + timed_done >= W + T or data.get("asleep", 0) >= W + T - timed_done:
                        if data.get("asleep", 0) >= W:
                            break
                s.sleep(0.01)
            data["phase"] = 1
            data["asleep_before_notifies"] = data.get("asleep", 0)
            for i in range(k):
                with prim:
                    prim.notify()
                _log(run, party="main", op="notify", t0=s.now, s0=s.steps)
                if spec["gap"]:
                    s.sleep(spec["gap"])
            s.sleep(50.0)          # far beyond every time-out of the noise waiters
            data["true_before_flush"] = sum(1 for e in data.get("log", []) if e["op"] == "wait" and e.get("r") is True)
            data["phase"] = 2
            for _ in range(60):
                if data.get("done", 0) >= W + T:
                    break
                with prim:
                    prim.notify_all()
                s.sleep(1.0)
            data["all_done"] = data.get("done", 0) >= W + T
            for p in parties:
                p.join()
            return
        if fam == "cond_storm":
            nw, t = spec["nw"], spec["t"]
            scripts = [[["wait", t]] for _ in range(nw)] + [[["wait", None]] for _ in range(spec["untimed"])]
            parties = [_start(ctx, prim, i, sc, shared, spec["procs"][i]) for i, sc in enumerate(scripts)]
            s.sleep(max(0.0, t + spec["delta"]))
            try:
                with prim:
                    getattr(prim, spec["how"])()
                _log(run, party="main", op=spec["how"], t0=s.now, s0=s.steps)
            except AssertionError as e:
                _log(run, party="main", op=spec["how"], exc="AssertionError", msg=str(e)[:100], t0=s.now, s0=s.steps)
            s.sleep(5.0)
            data["phase"] = 1
            # nobody notifies now: a wait must time out (a stale wake-up token would make it return True)
            with prim:
                r = prim.wait(0.5)
            data["quiet_wait"] = r
            for name in ("notify", "notify_all"):
                try:
                    with prim:
                        getattr(prim, name)()
                    data.setdefault("later", []).append((name, "ok"))
                except AssertionError as e:
                    data.setdefault("later", []).append((name, "AssertionError"))
            data["phase"] = 2
            for _ in range(60):
                if data.get("done", 0) >= len(scripts):
                    break
                with prim:
                    prim.notify_all()
                s.sleep(1.0)
            data["all_done"] = data.get("done", 0) >= len(scripts)
            for p in parties:
                p.join()
            return
        scripts = spec["scripts"]
        parties = [_start(ctx, prim, i, sc, shared, spec["procs"][i]) for i, sc in enumerate(scripts)]
        if fam == "cond_chaos":
            s.sleep(20.0)
            data["phase"] = 2
            for _ in range(60):
                if data.get("done", 0) >= len(scripts):
                    break
                with prim:
                    prim.notify_all()
                s.sleep(1.0)
            data["all_done"] = data.get("done", 0) >= len(scripts)
            for p in parties:
                p.join()
            # the condition must still work: one more round trip
            box = []

            def waiter():
                with prim:
                    data["rt_asleep"] = True
                    box.append(prim.wait(None))
            t = threading.Thread(target=waiter, name="user9")
            t.start()
            for _ in range(100):
                with prim:
                    if data.get("rt_asleep"):
                        prim.notify_all()
                        break
                s.sleep(0.01)
            t.join()
            data["roundtrip"] = box
        elif fam == "event":
            s.sleep(3000.0)
            # release the parties still blocked; a party may clear and wait again, so repeat
            for rnd in range(40):
                if data.get("done", 0) >= len(scripts):
                    break
                before = dict(data.get("in_ewait", {}))
                nlog = len(data.get("log", []))
                t0_, s0_ = s.now, s.steps
                prim.set()
                _log(run, party="main", op="set", t0=t0_, s0=s0_)
                s.sleep(1000.0)
                cleared = any(e["op"] == "clear" and e["step"] >= s0_ for e in data.get("log", []))
                still = [p_ for p_, (st_, to_) in data.get("in_ewait", {}).items()
                         if p_ in before and before[p_][0] == st_ and to_ is None]
                if still and not cleared:
                    data["not_released"] = still
                    break
            for p in parties:
                p.join()
        else:
            for p in parties:
                p.join()
            data["final_value"] = prim._semlock._get_value()
            if spec["kind"] in ("BoundedSemaphore", "Lock"):
                try:
                    prim.release()
                    data["over_release"] = "accepted"
                except ValueError:
                    data["over_release"] = "ValueError"
                except BaseException as e:  # noqa
                    if isinstance(e, sk.SimKilled):
                        raise
                    data["over_release"] = type(e).__name__
    return program


# ---------------------------------------------------------------- oracle helpers
def event_linearizable(ops):
    """ops: list of dicts(kind in set/clear/read, val for reads, s0, s1). Boolean
    register, initially False.  Wing & Gong style search with memoisation."""
    n = len(ops)
    order_after = [[j for j in range(n) if ops[j]["s1"] < ops[i]["s0"]] for i in range(n)]   # j completed before i began
    seen = set()

    def rec(done, val):
        if len(done) == n:
            return True
        key = (done, val)
        if key in seen:
            return False
        seen.add(key)
        for i in range(n):
            if i in done:
                continue
            if any(j not in done for j in order_after[i]):
                continue
            o = ops[i]
            if o["kind"] == "set":
                if rec(done | {i}, True):
                    return True
            elif o["kind"] == "clear":
                if rec(done | {i}, False):
                    return True
            else:
                if o["val"] == val and rec(done | {i}, val):
                    return True
        return False
    return rec(frozenset(), False)


class C14(Prop):
    id = "C14"
    quick_runs = 3000
    thorough_runs = 60000
    claim = ("seeded search over scripts of 2-4 parties (threads of one process and child processes holding pickled "
             "copies) on Lock/RLock/Semaphore/BoundedSemaphore/Condition/Event with time-outs firing adversarially; "
             "critical-section overlap counter, conservation of the semaphore value, over-release, Condition wake-up "
             "accounting (exact count of woken waiters per notify, flush by notify_all, wait holds the lock, False only "
             "after the deadline, round trip after bursts), Event histories checked for linearizability against a "
             "boolean register")
    assumptions = ["SimSemLock mirrors _multiprocessing.SemLock (kinds, count/last_tid per handle, rebuild by name, "
                   "'released too many times')", "timer expiry is adversarial within the starvation bound J"]

    def gen(self, rng, tier):
        return gen(rng, tier)

    def program(self, spec):
        return program_of(spec)

    def nontrivial(self, res):
        return True

    def check(self, res):
        pid = self.id
        out = []
        spec = res.spec
        fam = spec["fam"]
        data = res.obs.data
        log = data.get("log", [])
        if res.outcome in ("deadlock", "livelock"):
            where = sorted(set((t["role"].rstrip("0123456789"), t["what"]) for t in res.sched.snapshot if t["role"] != "tracker-main"))
            out.append(V(pid, "C14/%s/hang/%s" % (fam, res.outcome), "parties blocked forever: %r" % (where,), snapshot=res.sched.snapshot))
            return out
        if res.outcome != "complete":
            return out
        if res.program_exc:
            out.append(V(pid, "C14/%s/exception/%s" % (fam, res.program_exc[0]), res.program_exc[2][-600:]))
        for e in log:
            if e.get("exc"):
                out.append(V(pid, "C14/%s/exception/%s" % (fam, e["exc"]), "party %r op %s raised %s: %s" % (e["party"], e["op"], e["exc"], e.get("msg"))))
                return out
        for t in res.sched.task_errors + res.run.thread_excs:
            out.append(V(pid, "C14/%s/party-died/%s" % (fam, t[1]), repr(t)[:300]))
            return out
        for p in res.kernel.procs.values():
            if p.role == "worker" and p.status != ("exit", 0):
                out.append(V(pid, "C14/%s/child-process-failed" % fam, "child %d ended with %r" % (p.pid, p.status)))
        if fam == "mutex":
            cs = data.get("cs", {})
            if cs.get("viol"):
                out.append(V(pid, "C14/mutex/exclusion-violated/%s" % spec["kind"], "%d parties inside a %s(%d) section: %r" % (
                    cs["viol"][0][1], spec["kind"], spec["n"], cs["viol"][:3])))
            if "final_value" in data and data["final_value"] != spec["n"]:
                out.append(V(pid, "C14/mutex/value-not-conserved/%s" % spec["kind"], "value %r after all releases, initial %d" % (data["final_value"], spec["n"])))
            if "over_release" in data and data["over_release"] != "ValueError":
                out.append(V(pid, "C14/mutex/over-release-%s/%s" % (data["over_release"], spec["kind"]), "release() of a fully released %s" % spec["kind"]))
            for e in log:
                if e["op"] == "lock" and e["r"] is False and e["mode"] == "block":
                    out.append(V(pid, "C14/mutex/blocking-acquire-failed", repr(e)))
        if fam == "cond_storm":
            if data.get("quiet_wait") is True:
                out.append(V(pid, "C14/cond/spurious-wakeup", "wait(0.5) returned True although nobody notified (stale wake-up token)"))
            for name, r in data.get("later", []):
                if r != "ok":
                    out.append(V(pid, "C14/cond/internal-assertion/%s" % name, "%s() raised %s after a burst of time-outs" % (name, r)))
        if fam in ("cond_counted", "cond_chaos", "cond_storm"):
            for e in log:
                if e["op"] != "wait":
                    continue
                if not e["holds_lock"]:
                    out.append(V(pid, "C14/cond/wait-returned-without-lock", repr(e)))
                if e["r"] is False:
                    if e["timeout"] is None:
                        out.append(V(pid, "C14/cond/untimed-wait-returned-false", repr(e)))
                    elif e["now"] + 1e-9 < e["t0"] + e["timeout"]:
                        out.append(V(pid, "C14/cond/false-before-deadline", "wait(%r) started %.6f returned False at %.6f" % (e["timeout"], e["t0"], e["now"])))
            if data.get("all_done") is False:
                out.append(V(pid, "C14/cond/waiter-not-woken-by-notify_all", "after 60 notify_all rounds only %r parties finished" % data.get("done")))
        if fam == "cond_counted" and data.get("asleep_before_notifies", 0) >= spec["W"]:
            k = spec["k"]
            got = data.get("true_before_flush")
            if got is not None and got > k:
                out.append(V(pid, "C14/cond/notify-woke-more-than-one", "%d notify() calls, %d waiters returned True" % (k, got)))
            if got is not None and got < k:
                notifies = [e for e in log if e["op"] == "notify"]
                first = min(e["s0"] for e in notifies) if notifies else 0
                racers = sum(1 for e in log if e["op"] == "wait" and e["timeout"] is not None and e["r"] is False
                             and e["step"] >= first)
                why = "racing-expiring-waiter" if racers >= k - got else "no-expiring-waiter"
                out.append(V(pid, "C14/cond/notify-lost/%s" % why, "%d notify() calls with %d never-expiring waiters asleep, but only %d "
                             "waiters were woken (%d waiters timed out while the notifications were issued)" % (k, spec["W"], got, racers)))
        if fam == "cond_chaos":
            if data.get("roundtrip") != [True]:
                out.append(V(pid, "C14/cond/unusable-after-burst", "final wait/notify_all round trip gave %r" % (data.get("roundtrip"),)))
        if fam == "event" and data.get("not_released"):
            out.append(V(pid, "C14/event/waiter-not-released-by-set", "parties %r stayed blocked in wait(None) across a complete set() although nobody cleared the event" % (data["not_released"],)))
        if fam == "event":
            ops = []
            for e in log:
                if e["op"] in ("set", "clear"):
                    ops.append(dict(kind=e["op"], s0=e["s0"], s1=e["step"]))
                elif e["op"] == "is_set":
                    ops.append(dict(kind="read", val=bool(e["r"]), s0=e["s0"], s1=e["step"]))
                elif e["op"] == "ewait":
                    # a wait is a read of the value it reports, somewhere inside the call
                    ops.append(dict(kind="read", val=bool(e["r"]), s0=e["s0"], s1=e["step"]))
            if len(ops) <= 14 and not event_linearizable(ops):
                out.append(V(pid, "C14/event/history-not-linearizable", "no sequential order of %r explains the values" % (
                    [(o["kind"], o.get("val"), o["s0"], o["s1"]) for o in ops],)))
        return out

    def features(self, res):
        sp = res.spec
        f = {"fam:" + sp["fam"]: 1, "kind:" + sp["kind"]: 1}
        if any(sp["procs"]):
            f["cross-process"] = 1
        for e in res.obs.data.get("log", []):
            if e["op"] in ("wait", "ewait") and e.get("r") is False:
                f["timed-out-waits"] = f.get("timed-out-waits", 0) + 1
            if e["op"] == "lock" and e.get("r") is False:
                f["failed-acquires"] = f.get("failed-acquires", 0) + 1
        if res.spec["fam"] == "mutex":
            f["max-inside-%d" % res.obs.data.get("cs", {}).get("max", 0)] = 1
        return f


PROP = C14()
