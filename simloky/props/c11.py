"""C11 - the resource tracker's reference counts are exact.

System under test: the real loky.backend.resource_tracker.main() running as a
simulated process and reading a simulated pipe that 1-3 concurrent writers
fill; the scheduler decides the merge order, signals land at any step, EOF
comes when the last writer is gone."""
import sys
import threading

from .base import Prop, V, gen_knobs
from .. import runtime as rt
from .. import kernel as sk

RTYPES = ["file", "folder", "semlock"]
NAMES = ["a", "b", "x:y", "C:\\\\tmp\\\\d", "/dev/shm/n 1", "a/f", "ab"]


def gen_line(rng):
    k = rng.random()
    if k < 0.78:
        cmd = rng.choice(["REGISTER", "REGISTER", "REGISTER", "MAYBE_UNLINK", "MAYBE_UNLINK", "UNREGISTER", "PROBE"])
        return "%s:%s:%s\n" % (cmd, rng.choice(NAMES), rng.choice(RTYPES))
    if k < 0.83:
        return "BOGUS:%s:%s\n" % (rng.choice(NAMES), rng.choice(RTYPES))
    if k < 0.88:
        return "REGISTER:%s:nosuchtype\n" % rng.choice(NAMES)
    if k < 0.92:
        return "REGISTER:\xff\xfe:file\n"
    if k < 0.96:
        return "garbage-without-separator\n"
    return "\n"


def gen(rng, tier):
    writers = [[gen_line(rng) for _ in range(rng.randint(0, 9))] for _ in range(rng.randint(1, 3))]
    if rng.random() < 0.2 and writers[-1]:
        writers[-1][-1] = writers[-1][-1].rstrip("\n")[: rng.randint(1, 30)]      # EOF in the middle of a line
    fail = rng.choice([None, None, None, "FileNotFoundError", "PermissionError"])
    sigs = []
    for _ in range(rng.choice([0, 0, 1, 3])):
        sigs.append(dict(kind="kill", target=["t", 0], sig=rng.choice([2, 15]), at=["step", rng.randint(1, 400)]))
    kn = gen_knobs(rng, tier, line=False)
    return dict(family="tracker", knobs=kn, writers=writers, fail=fail, faults=sigs, model=dict(boot=rng.choice([0.0, 0.02])))


def model(lines):
    """reference model, straight from the statement."""
    reg = {t: {} for t in RTYPES}
    calls = []
    for raw in lines:
        try:
            sp = raw.strip().decode("ascii").split(":")
        except UnicodeDecodeError:
            continue
        cmd, name, rtype = sp[0], ":".join(sp[1:-1]), sp[-1]
        if cmd == "PROBE":
            continue
        if rtype not in reg:
            continue
        r = reg[rtype]
        if cmd == "REGISTER":
            r[name] = r.get(name, 0) + 1
        elif cmd == "UNREGISTER":
            r.pop(name, None)
        elif cmd == "MAYBE_UNLINK":
            if name in r:
                r[name] -= 1
                if r[name] == 0:
                    del r[name]
                    calls.append((rtype, name))
    end_other = [(t, n) for t in ("file", "semlock") for n in reg[t]]
    end_folder = [("folder", n) for n in reg["folder"]]
    return calls, end_other, end_folder


class C11(Prop):
    id = "C11"
    quick_runs = 3000
    thorough_runs = 60000
    claim = ("seeded search over request sequences written by 1-3 concurrent writers to the pipe of the real tracker "
             "main() running as a simulated process (merge order chosen by the scheduler, SIGINT/SIGTERM at random "
             "steps, EOF possibly in the middle of a line, cleanup functions optionally failing); the exact sequence of "
             "cleanup calls is compared with a reference model applied to the lines in pipe order")
    assumptions = ["cleanup functions are replaced by recorders (optionally raising); the order of lines is the order "
                   "of the simulated kernel's pipe writes (each request <= 512 bytes, hence atomic)"]

    def gen(self, rng, tier):
        return gen(rng, tier)

    def nontrivial(self, res):
        return sum(len(w) for w in res.spec["writers"]) > 0

    def program(self, spec):
        def post_boot(proc):
            if proc.role != "tracker":
                return
            trk = sys.modules["loky.backend.resource_tracker"]
            run = rt.RT.run
            for rtype in list(trk._CLEANUP_FUNCS):
                def rec(name, rtype=rtype):
                    run.obs.data.setdefault("calls", []).append((rtype, name))
                    if spec["fail"]:
                        raise {"FileNotFoundError": FileNotFoundError, "PermissionError": PermissionError}[spec["fail"]](2, "nope")
                trk._CLEANUP_FUNCS[rtype] = rec

        def program(run):
            run.post_boot = post_boot
            trk = sys.modules["loky.backend.resource_tracker"]
            fos = rt.RT.kernel.procs[100].overlay["os"]
            trk._resource_tracker.ensure_running()
            fd = trk._resource_tracker._fd
            lines = run.obs.data.setdefault("lines", [])

            def client(script):
                for ln in script:
                    b = ln.encode("latin-1")
                    fos.write(fd, b)
                    lines.append(b)
            ts = [threading.Thread(target=client, args=(sc,), name="user%d" % i) for i, sc in enumerate(spec["writers"])]
            for t in ts:
                t.start()
            for t in ts:
                t.join()
        return program

    def check(self, res):
        pid = self.id
        out = []
        if res.outcome != "complete":
            if res.outcome in ("deadlock", "livelock"):
                out.append(V(pid, "C11/tracker-hang/%s" % res.outcome, "run did not finish: %r" % (res.sched.snapshot,)))
            return out
        trackers = [p for p in res.kernel.procs.values() if p.role == "tracker"]
        if len(trackers) != 1 or trackers[0].status != ("exit", 0):
            out.append(V(pid, "C11/tracker-ended-badly", "trackers: %r" % [(p.pid, p.status) for p in trackers]))
            return out
        lines = res.obs.data.get("lines", [])
        # a final line without newline merges with nothing (it is last in pipe order only if written last)
        raw = b"".join(lines)
        seq = raw.split(b"\n")
        if seq and seq[-1] == b"":
            seq.pop()
        calls = [tuple(c) for c in res.obs.data.get("calls", [])]
        exp_run, exp_other, exp_folder = model(seq)
        got_run = calls[:len(exp_run)]
        rest = calls[len(exp_run):]
        if got_run != exp_run:
            out.append(V(pid, "C11/refcount-cleanup-sequence-differs", "lines %r\nexpected %r\ngot %r" % (seq, exp_run, calls)))
            return out
        if sorted(rest) != sorted(exp_other + exp_folder):
            out.append(V(pid, "C11/end-of-life-sweep-differs", "lines %r\nexpected sweep %r\ngot %r" % (seq, exp_other + exp_folder, rest)))
            return out
        if exp_folder and any(t == "folder" for t, _ in rest[:len(exp_other)]):
            out.append(V(pid, "C11/folder-swept-before-other-kinds", "sweep order %r" % (rest,)))
        return out

    def features(self, res):
        f = {}
        raw = b"".join(res.obs.data.get("lines", []))
        for ln in raw.split(b"\n"):
            cmd = ln.split(b":")[0][:12].decode("latin-1")
            if cmd in ("REGISTER", "UNREGISTER", "MAYBE_UNLINK", "PROBE", "BOGUS"):
                f["cmd:" + cmd] = f.get("cmd:" + cmd, 0) + 1
            elif ln:
                f["malformed"] = f.get("malformed", 0) + 1
        f["cleanup-calls"] = len(res.obs.data.get("calls", []))
        f["writers-%d" % len(res.spec["writers"])] = 1
        if res.spec["fail"]:
            f["failing-cleanup"] = 1
        ign = sum(1 for x in res.kernel.log if x[0] in ("sig-ignored", "sig-pending"))
        if ign:
            f["signals-ignored-or-deferred"] = ign
        return f


PROP = C11()
