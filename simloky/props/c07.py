"""C07 - idle-timeout exits are invisible: never 'broken', never a lost task."""
from .base import focus_hot, Prop, V, gen_knobs, gen_model, submit_op, hang_violations
from . import execfam as X

TIMEOUTS = [0.0, 0.0, 0.001, 0.01, 0.05, 0.2, 1.0]


def gen_aligned(rng, tier):
    """all workers idle for exactly their time-out when the next submit arrives."""
    workers = rng.choice([1, 1, 2])
    timeout = rng.choice([0.01, 0.05, 0.2, 1.0])
    main = [{"op": "create", "ex": "A", "kw": {"max_workers": workers, "timeout": timeout}}]
    fid = 0
    for _ in range(rng.randint(1, 4)):
        for _ in range(rng.randint(1, workers + 1)):
            main.append(submit_op("A", fid, dict(id=fid, kind="work", dur=rng.choice([0, 0, 0.01])), []))
            fid += 1
        main.append({"op": "wait_all"})
        main.append({"op": "sleep", "d": timeout + rng.choice([0.0, 0.0, 0.0, -0.001, 0.001, 0.01])})
    main.append(submit_op("A", fid, dict(id=fid, kind="work", dur=0), []))
    main.append({"op": "wait_all"})
    main.append({"op": "shutdown", "ex": "A", "wait": True})
    kn = gen_knobs(rng, tier)
    kn["J"] = rng.choice([0.0, 0.001, 0.05])
    return dict(family="timeouts", knobs=kn, model=gen_model(rng), threads=[main], faults=[], hold_refs=True, end="aligned")


def gen(rng, tier):
    if rng.random() < 0.3:
        return gen_aligned(rng, tier)
    mode = rng.choice(["plain", "plain", "reusable"])
    workers = rng.randint(1, 3)
    nthreads = rng.choice([1, 1, 2])
    timeout = rng.choice(TIMEOUTS)
    threads = [[] for _ in range(nthreads)]
    main = threads[0]
    if mode == "plain":
        main.append({"op": "create", "ex": "A", "kw": {"max_workers": workers, "timeout": timeout}})
    main.append({"op": "start_users"})
    fid = 0
    for th in range(nthreads):
        ops = threads[th]
        if mode == "reusable":
            ops.append({"op": "reusable", "ex": "A", "kw": {"max_workers": workers, "timeout": timeout}})
        for _ in range(rng.randint(1, 7)):
            ts = dict(id=fid, kind="work", dur=rng.choice([0, 0, 0.001, 0.01, 0.05, 0.3]))
            args = [["slow", rng.choice([0.01, 0.06, 0.3])]] if rng.random() < 0.2 else []
            ops.append(submit_op("A", fid, ts, args))
            fid += 1
            r = rng.random()
            if r < 0.35:
                ops.append({"op": "sleep", "d": rng.choice([0.0005, 0.001, 0.01, 0.05, 0.2, 1.1])})
            elif r < 0.45:
                ops.append({"op": "wait_all"})
            elif r < 0.55 and mode == "reusable":
                ops.append({"op": "reusable", "ex": "A", "kw": {"max_workers": rng.randint(1, 3), "timeout": timeout}})
            elif r < 0.6:
                ops.append({"op": "cancel", "f": rng.randrange(fid)})
        if th > 0:
            ops.append({"op": "wait_all"})
    end = rng.choice(["wait", "nowait", "del", "none", "collect", "collect"])
    if nthreads > 1:
        main.append({"op": "join_users"})
    if end == "collect":
        main.append({"op": "wait_all", "which": "all"})
    elif end == "wait":
        main.append({"op": "shutdown", "ex": "A", "wait": True})
    elif end == "nowait":
        main.append({"op": "shutdown", "ex": "A", "wait": False})
        main.append({"op": "wait_all", "which": "all"})
    elif end == "del" and mode == "plain":
        main.append({"op": "del", "ex": "A"})
        main.append({"op": "wait_all", "which": "all"})
    kn = gen_knobs(rng, tier)
    if rng.random() < 0.5:
        kn["J"] = rng.choice([0.001, 0.05, 1.0])
        kn["p_time"] = rng.choice([0.05, 0.1, 0.3])
    kn = focus_hot(rng, kn, threads)
    return dict(family="timeouts", knobs=kn, model=gen_model(rng), threads=threads, faults=[],
                hold_refs=rng.random() < 0.8, end=end)


class C07(Prop):
    id = "C07"
    track_states = True
    quick_runs = 1500
    thorough_runs = 40000
    assumptions = ["no kill is injected: every worker death in these runs is loky's own idle time-out exit",
                   "timer expiry is adversarial within the starvation bound J (DESIGN 5.3)"]

    def gen(self, rng, tier):
        return gen(rng, tier)

    def check(self, res):
        out = hang_violations(res, self.id)
        if out or not X.conclusive(res):
            return out
        out += X.check_not_broken(res, self.id, "idle time-outs only")
        out += X.check_future_outcomes(res, self.id)
        out += X.check_workers_clean(res, self.id)
        for rec in res.obs.futures.values():
            st, payload = __import__("simloky.props.base", fromlist=["fut_state"]).fut_state(rec)
            if st == "exc" and "TerminatedWorkerError" in payload["mro"]:
                out.append(V(self.id, "C07/timeout-reported-as-crash", payload["msg"][:300]))
                break
        return out

    def features(self, res):
        f = {}
        n = sum(1 for p in X.worker_procs(res) if p.status == ("exit", 0))
        f["worker-exits>%d" % min(n, 8)] = 1
        if any("A worker stopped" in w[2] for w in res.run.warnings):
            f["respawn-warning"] = 1
        if len(X.worker_procs(res)) > 3:
            f["respawned"] = 1
        return f


PROP = C07()
