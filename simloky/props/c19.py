"""C19 - nested parallelism depth is bounded exactly at LOKY_MAX_DEPTH."""
from .base import Prop, V, gen_knobs, gen_model, submit_op, hang_violations
from . import execfam as X


def chain(rng, tid, depth, maxd_hint, use_fork_at=None):
    """a task that builds an executor in its worker and recurses `depth` levels."""
    ts = dict(id=tid, kind="work", dur=0)
    for d in range(depth, 0, -1):
        sub = [ts]
        if rng.random() < 0.3:
            sub.append(dict(id=tid + 50 * d, kind="work", dur=rng.choice([0, 0.01])))
        nest = dict(workers=rng.randint(1, 2), sub=sub, timeout=rng.choice([None, None, 0.05]))
        if use_fork_at == d:
            nest["context"] = "fork"
        ts = dict(id=tid + 1000 * d, kind="nested", dur=0, nested=nest)
    return ts


def gen(rng, tier):
    maxd = rng.choice(["1", "2", "3", None, "0", "-1"])
    via_env_kw = rng.random() < 0.3 and maxd is not None
    lim = 10 if maxd is None else int(maxd)
    top = (lim if lim > 0 else 3)
    threads = [[]]
    main = threads[0]
    mode = rng.choice(["plain", "plain", "reusable"])
    kw = {"max_workers": rng.randint(1, 2), "timeout": rng.choice([None, 10.0, 0.05])}
    if via_env_kw:
        kw["env"] = {"LOKY_MAX_DEPTH": maxd}
    if mode == "plain":
        main.append({"op": "create", "ex": "A", "kw": kw})
    else:
        kw["timeout"] = kw["timeout"] or 10.0
        main.append({"op": "reusable", "ex": "A", "kw": kw})
    fid = 0
    for _ in range(rng.randint(1, 3)):
        depth = min(rng.randint(0, top + 1), 4)
        fork_at = rng.randint(1, max(1, depth)) if depth and rng.random() < 0.15 else None
        main.append(submit_op("A", fid, chain(rng, 10000 * (fid + 1), depth, top, fork_at), []))
        fid += 1
        r = rng.random()
        if r < 0.3:
            main.append({"op": "wait_all"})
        if r < 0.2:
            main.append({"op": "sleep", "d": rng.choice([0.1, 1.0])})     # let idle workers time out -> respawn
        if mode == "reusable" and rng.random() < 0.3:
            kw2 = dict(kw, max_workers=rng.randint(1, 3))
            main.append({"op": "reusable", "ex": "A", "kw": kw2})
    main.append({"op": "wait_all"})
    main.append({"op": "shutdown", "ex": "A", "wait": True})
    env = {}
    if maxd is not None and not via_env_kw:
        env["LOKY_MAX_DEPTH"] = maxd
    return dict(family="depth", knobs=gen_knobs(rng, tier, line=False), model=gen_model(rng), threads=threads,
                faults=[], env=env, maxd=maxd)


class C19(Prop):
    id = "C19"
    quick_runs = 1200
    thorough_runs = 20000
    claim = ("seeded search over LOKY_MAX_DEPTH in {1,2,3,default,0,-1} (process environment or env= overlay, read by "
             "each simulated process's own copy of process_executor at import), recursion chains up to the limit plus "
             "one through nested executors created in simulated workers, worker reuse, respawn after time-outs and "
             "resizes; construction succeeds iff depth < limit, never under 'fork' at depth >= 1, refusal raises "
             "LokyRecursionError without spawning, and the depth seen in a worker is its creator's + 1 (from the "
             "simulated process tree)")
    assumptions = ["for the 'fork' rule only the refusal is exercised: forking a simulated process is not modelled "
                   "(os.fork in simulated code is trapped and reported)"]

    def gen(self, rng, tier):
        return gen(rng, tier)

    def check(self, res):
        pid = self.id
        out = hang_violations(res, pid)
        if out or not X.conclusive(res):
            return out
        k = res.kernel
        for n in res.obs.notes:
            if n[0] == "fork-attempted":
                out.append(V(pid, "C19/fork-context-not-refused", "process %d tried to fork" % n[1]))
            if n[0] in ("constructed", "refused"):
                _, p, d, ctx = n
                proc = k.procs[p]
                lim = int(proc.exec_env.get("LOKY_MAX_DEPTH", 10)) if p != 100 else int(proc.env.get("LOKY_MAX_DEPTH", 10))
                true_depth = proc.info.get("depth", 0)
                if d != true_depth:
                    out.append(V(pid, "C19/wrong-depth-in-worker", "process %d is at depth %d of the process tree but sees _CURRENT_DEPTH=%d" % (p, true_depth, d)))
                allowed = (lim <= 0 or true_depth < lim) and not (ctx == "fork" and true_depth >= 1)
                if allowed and n[0] == "refused":
                    out.append(V(pid, "C19/refused-below-limit", "depth %d, limit %d, context %r" % (true_depth, lim, ctx)))
                if not allowed and n[0] == "constructed":
                    out.append(V(pid, "C19/constructed-beyond-limit", "depth %d, limit %d, context %r" % (true_depth, lim, ctx)))
        for e in res.obs.exec_log:
            td = k.procs[e["pid"]].info.get("depth", 0)
            if e["depth"] != td:
                out.append(V(pid, "C19/wrong-depth-in-worker", "task %r ran in process %d (tree depth %d) with _CURRENT_DEPTH=%d" % (e["task"], e["pid"], td, e["depth"])))
                break
        for p in k.procs.values():
            if p.role == "worker":
                lim = int(p.exec_env.get("LOKY_MAX_DEPTH", 10))
                if lim > 0 and p.info.get("depth", 0) > lim:
                    out.append(V(pid, "C19/process-spawned-beyond-limit", "worker %d at depth %d, limit %d" % (p.pid, p.info["depth"], lim)))
        # tasks that do not hit the limit complete with their values
        for rec in res.obs.futures.values():
            from .base import fut_state
            st, payload = fut_state(rec)
            if st == "exc":
                out.append(V(pid, "C19/task-failed/%s" % payload["type"], payload["msg"][:300]))
                break
        return out

    def features(self, res):
        f = {"limit:%s" % res.spec["maxd"]: 1}
        for n in res.obs.notes:
            if n[0] in ("constructed", "refused"):
                f["%s@%d" % (n[0], n[2])] = f.get("%s@%d" % (n[0], n[2]), 0) + 1
                if n[3] == "fork":
                    f["fork-context-%s" % n[0]] = 1
        md = max([p.info.get("depth", 0) for p in res.kernel.procs.values()])
        f["tree-depth-%d" % md] = 1
        return f


PROP = C19()
