"""C09 - get_reusable_executor always returns a live, correctly configured singleton."""
from .base import focus_hot, Prop, V, gen_knobs, gen_model, submit_op, hang_violations, fut_state
from . import execfam as X

KW_POOL = dict(
    timeout=[10.0, 10.0, 0.05, 33.0],
    initializer=[None, None, {"marker": "i1"}],
    env=[None, None, {"LOKY_X": "1"}],
    job_reducers=[None, None, "R1"],
)


def gen_kw(rng):
    kw = {"max_workers": rng.randint(1, 3)}
    for k, vals in KW_POOL.items():
        if rng.random() < 0.5:
            v = rng.choice(vals)
            if v is not None or k == "timeout":
                kw[k] = v
    if "timeout" not in kw:
        kw["timeout"] = 10.0
    r = rng.random()
    if r < 0.2:
        kw["reuse"] = True
    elif r < 0.35:
        kw["reuse"] = False
    elif r < 0.5:
        kw["reuse"] = "auto"
    if rng.random() < 0.15:
        kw["kill_workers"] = True
    if rng.random() < 0.1:
        kw["context"] = rng.choice(["loky", "loky_init_main"])
    return kw


def gen(rng, tier):
    nthreads = rng.choice([1, 1, 2, 3])
    threads = [[] for _ in range(nthreads)]
    fid = 0
    crash = rng.random() < 0.35
    for th in range(nthreads):
        ops = threads[th]
        for _ in range(rng.randint(1, 5)):
            ops.append({"op": "reusable", "ex": "E%d" % th, "kw": gen_kw(rng)})
            for _ in range(rng.randint(0, 3)):
                kind = "work"
                r = rng.random()
                if crash and r < 0.15:
                    ts = dict(id=fid, kind=rng.choice(["exit", "kill"]), dur=rng.choice([0, 0.05]), code=3, sig=9)
                else:
                    ts = dict(id=fid, kind="work", dur=rng.choice([0, 0.01, 0.2]))
                ops.append(submit_op("E%d" % th, fid, ts, []))
                fid += 1
            r = rng.random()
            if r < 0.25:
                ops.append({"op": "wait_all"})
            elif r < 0.4:
                ops.append({"op": "shutdown", "ex": "E%d" % th, "wait": rng.random() < 0.5, "kill": rng.random() < 0.2})
            elif r < 0.55:
                ops.append({"op": "sleep", "d": rng.choice([0.01, 0.06, 0.5, 11.0])})
        ops.append({"op": "wait_all"})
    main = threads[0]
    if nthreads > 1:
        main.append({"op": "join_users"})
    main.append({"op": "reusable", "ex": "Z", "kw": {"max_workers": 1, "timeout": 10.0}})
    main.append(submit_op("Z", 9900, dict(id=9900, kind="work", dur=0), []))
    main.append({"op": "result", "f": 9900})
    faults = []
    if crash and rng.random() < 0.4:
        faults.append(dict(kind="kill", target=["w", rng.randrange(4)], sig=9, at=["op", rng.randint(1, 100)]))
    return dict(crashy=crash, family="reusable", knobs=focus_hot(rng, gen_knobs(rng, tier), threads), model=gen_model(rng), threads=threads, faults=faults,
                nthreads=nthreads)


def _kw_identity(kw):
    """the arguments that 'auto' reuse compares (as get_reusable_executor builds them)."""
    return dict(context=kw.get("context"), timeout=kw.get("timeout", 10), job_reducers=kw.get("job_reducers"),
                result_reducers=kw.get("result_reducers"), initializer=kw.get("initializer"), env=kw.get("env"))


class C09(Prop):
    id = "C09"
    track_states = True
    quick_runs = 2000
    thorough_runs = 40000
    assumptions = [
        "with one thread the reference model is exact (same instance iff healthy and reuse allows); with several "
        "racing threads only the clauses that are schedule independent are checked (returned executor not broken / "
        "shut down at call begin is relaxed to: not flagged when it was looked at; ids strictly increase; previous "
        "instance completely shut down before a fresh one is returned; tasks complete)",
        "reducer maps are rebuilt per call, so a call passing reducers never compares equal under reuse='auto'",
    ]

    def gen(self, rng, tier):
        return gen(rng, tier)

    def check(self, res):
        pid = self.id
        out = hang_violations(res, pid)
        if out or not X.conclusive(res):
            return out
        single = res.spec["nthreads"] == 1
        last_id = -1
        last_kw = None
        seen_ids = set()
        rets = [e for e in res.obs.events if e["op"] == "reusable" and e["phase"] == "ret"]
        for e in rets:
            r = e["r"]
            kw = e["o"]["kw"]
            # configured as requested
            if r["max_workers"] != kw["max_workers"] and single:
                out.append(V(pid, "C09/wrong-max-workers", "requested %d got %d" % (kw["max_workers"], r["max_workers"])))
            if r["fresh"]:
                if r["id"] in seen_ids or (single and seen_ids and r["id"] <= max(seen_ids)):
                    out.append(V(pid, "C09/executor-id-not-increasing", "new executor id %r after %r" % (r["id"], sorted(seen_ids))))
                seen_ids.add(r["id"])
            if r.get("stale_live"):
                out.append(V(pid, "C09/live-instance-dropped-without-shutdown",
                             "executor(s) %r (slot, id) were handed out earlier, are neither shut down nor broken, and are no "
                             "longer the singleton when this call returned executor id %r" % (r["stale_live"], r["id"])))
            if not r["same"]:
                old = r.get("old")
                if old:
                    if old["mgr_alive"]:
                        out.append(V(pid, "C09/previous-instance-still-running", "a fresh executor was returned while the manager thread of the previous one was alive (pending=%d)" % old["pending"]))
                    elif old["pending"]:
                        out.append(V(pid, "C09/previous-instance-has-pending-work", "pending=%d" % old["pending"]))
                    alive = [p for p in old["registered"] if res.kernel.procs[p].death is None or res.kernel.procs[p].death > e["now"]]
                    if alive:
                        # workers that a racing _resize of another thread spawned into the instance after a
                        # user's shutdown() of it had begun (the F9 family) are told apart
                        prev_n = [n for n, i in res.obs.executors.items() if i["executor_id"] == r["prev"]["id"]]
                        t_sd = [c["now"] for c in res.obs.events if c["op"] in ("shutdown", "with") and c["phase"] == "call"
                                and any(x["phase"] == "ret" and x["thread"] == c["thread"] and x["i"] == c["i"]
                                        and (x.get("r") or {}).get("exn") in prev_n for x in res.obs.events)]
                        late = bool(t_sd) and all(res.kernel.procs[p].birth >= min(t_sd) - 1e-9 for p in alive)
                        out.append(V(pid, "C09/previous-workers-alive%s" % ("/spawned-after-user-shutdown" if late else ""),
                                     "workers %r of the previous instance alive at return" % alive))
            if single:
                prev = r["prev"]
                exp_same = None
                if prev is None:
                    exp_same = False
                else:
                    healthy = not prev["broken"] and not prev["shutdown"]
                    reuse = kw.get("reuse", "auto")
                    if reuse == "auto":
                        has_fresh_objects = bool(kw.get("job_reducers") or kw.get("result_reducers"))
                        reuse = (not has_fresh_objects) and last_kw is not None and _kw_identity(kw) == last_kw
                    exp_same = bool(healthy and reuse)
                if exp_same and not r["same"] and (prev.get("broken_at_return") or prev.get("shutdown_at_return")) \
                        and (X.injected_kills(res) or res.spec.get("crashy")):
                    exp_same = False       # the previous instance stopped being healthy while the call was in progress
                if exp_same != r["same"]:
                    out.append(V(pid, "C09/reuse-decision/%s" % ("reused" if r["same"] else "replaced"),
                                 "expected same=%r got %r (prev=%r kw=%r)" % (exp_same, r["same"], prev, kw)))
                if not r["same"]:
                    last_kw = _kw_identity(kw)    # a context name maps to one cached context object: compares equal
                if r["fresh"] and (r["broken"] or r["shutdown"]):
                    out.append(V(pid, "C09/returned-executor-not-healthy", "fresh executor broken=%r shutdown=%r at return" % (r["broken"], r["shutdown"])))
        for e in res.obs.events:
            if e["op"] == "reusable" and e["phase"] == "exc":
                began = [c["step"] for c in res.obs.events if c["op"] == "reusable" and c["phase"] == "call"
                         and c["thread"] == e["thread"] and c["i"] == e["i"]]
                b = began[0] if began else 0
                # what else happened to the executor while this call was running
                racing = ""
                for c in res.obs.events:
                    if c["op"] in ("shutdown", "with") and c["thread"] != e["thread"] and c["phase"] in ("ret", "exc"):
                        c0 = [x["step"] for x in res.obs.events if x["op"] == c["op"] and x["phase"] == "call"
                              and x["thread"] == c["thread"] and x["i"] == c["i"]]
                        if c0 and c0[0] <= e["step"] and c["step"] >= b:
                            racing = "/racing-user-shutdown"
                t0 = [c["now"] for c in res.obs.events if c["op"] == "reusable" and c["phase"] == "call"
                      and c["thread"] == e["thread"] and c["i"] == e["i"]]
                t0 = t0[0] if t0 else 0.0
                if not racing and any(b <= f[6] <= e["step"] for f in X.injected_kills(res)):
                    racing = "/racing-break"
                if not racing:
                    # a worker of the root that ended abruptly (task-induced crash) while the call was running, or
                    # whose death had not been handled yet when the call began
                    for p in X.worker_procs(res):
                        if p.status is not None and p.status != ("exit", 0) and p.death is not None \
                                and t0 - 1e-9 <= p.death <= e["now"] + 1e-9:
                            racing = "/racing-break"
                            break
                if not racing:
                    # ... or that died shortly before, the manager thread still being busy with the break when
                    # the call began
                    at_call = [r for r in res.obs.data.get("reusable_at_call", [])
                               if r["thread"] == e["thread"] and b <= r["step"] <= e["step"]]
                    if at_call and at_call[0]["mgr_alive"] and any(
                            p.status is not None and p.status != ("exit", 0) and p.death is not None
                            and p.death <= e["now"] + 1e-9 for p in X.worker_procs(res)):
                        racing = "/racing-break"
                out.append(V(pid, "C09/get-reusable-executor-raised/%s%s" % (e["r"]["e"]["type"], racing),
                             "kw=%r: %s" % (e["o"]["kw"], e["r"]["e"]["msg"][:200])))
        # every thread's tasks complete with their values (deaths make BrokenProcessPool legal)
        out += X.check_future_outcomes(res, pid, allow_broken=True, allow_shutdown_error=True)
        return out

    def features(self, res):
        f = {}
        for e in res.obs.events:
            if e["op"] == "reusable" and e["phase"] == "ret":
                f["same" if e["r"]["same"] else "fresh"] = f.get("same" if e["r"]["same"] else "fresh", 0) + 1
                if e["r"]["prev"] and e["r"]["prev"]["broken"]:
                    f["prev-broken"] = 1
                if e["r"]["prev"] and e["r"]["prev"]["shutdown"]:
                    f["prev-shutdown"] = 1
        f["threads-%d" % res.spec["nthreads"]] = 1
        return f


PROP = C09()
