"""C04 - task-level failures are contained to their own future."""
from .base import focus_hot, Prop, V, gen_knobs, gen_model, gen_task, submit_op, hang_violations, fut_state
from . import execfam as X

FAULTY = ["raise", "raise", "bad_arg", "bad_arg", "bad_result", "slow_arg"]


def gen(rng, tier):
    workers = rng.randint(1, 3)
    nthreads = rng.choice([1, 1, 2])
    threads = [[] for _ in range(nthreads)]
    main = threads[0]
    main.append({"op": "create", "ex": "A", "kw": {"max_workers": workers, "timeout": rng.choice([None, None, 5.0, 0.05])}})
    main.append({"op": "start_users"})
    fid = 0
    nfaulty = 0
    n = rng.choice([2, 4, 8, 12])       # up to more than the 2*workers+1 call-queue slots
    for th in range(nthreads):
        ops = threads[th]
        for _ in range(rng.randint(1, n)):
            if rng.random() < 0.4:
                ts, args = gen_task(rng, fid, FAULTY, durs=(0, 0, 0.01, 0.2))
                nfaulty += 1
            else:
                ts, args = dict(id=fid, kind="work", dur=rng.choice([0, 0.01, 0.2, 1.0])), []
            ops.append(submit_op("A", fid, ts, args))
            if rng.random() < 0.2:
                ops.append({"op": "callback", "f": fid, "mode": rng.choice(["raise", "raise_base", "ok", "submit", "submit"])})
            fid += 1
        ops.append({"op": "wait_all"})
    if nthreads > 1:
        main.append({"op": "join_users"})
    main.append({"op": "settle"})
    main.append({"op": "check_idle", "ex": "A"})
    main.append(submit_op("A", 8000, dict(id=8000, kind="work", dur=0), []))
    main.append({"op": "result", "f": 8000})
    main.append({"op": "shutdown", "ex": "A", "wait": rng.random() < 0.7})
    main.append({"op": "wait_all", "which": "all"})
    return dict(family="containment", knobs=focus_hot(rng, gen_knobs(rng, tier), threads), model=gen_model(rng), threads=threads, faults=[])


class C04(Prop):
    id = "C04"
    track_states = True
    quick_runs = 2000
    thorough_runs = 40000
    assumptions = ["'too large to send' is emulated by an argument whose pickling raises struct.error "
                   "(send_bytes cannot overflow on Python 3.12)"]

    def gen(self, rng, tier):
        return gen(rng, tier)

    def check(self, res):
        out = hang_violations(res, self.id)
        if out or not X.conclusive(res):
            return out
        out += X.check_future_outcomes(res, self.id)
        out += X.check_not_broken(res, self.id, "task-level failures only")
        for e in res.obs.events:
            if e["op"] == "check_idle" and e["phase"] == "ret" and not e["r"].get("skipped"):
                r = e["r"]
                if r["pending"]:
                    out.append(V(self.id, "C04/pending-not-empty-when-idle", "%d work items left after all futures were done" % r["pending"]))
                if r["sem"] != r["maxsize"]:
                    out.append(V(self.id, "C04/queue-slot-leak", "call-queue slot semaphore is %d, capacity %d, with no call in flight" % (r["sem"], r["maxsize"])))
        for n, info in res.obs.executors.items():
            if len(info["running"]) or len(info["pending"]):
                out.append(V(self.id, "C04/bookkeeping-not-empty-at-quiescence", "running=%r pending=%r" % (list(info["running"]), list(info["pending"]))))
        # every done-callback ran exactly once, whatever the other callbacks of the same future did
        import collections
        reg = collections.Counter(map(tuple, res.obs.data.get("cb_registered") or []))
        ran = collections.Counter(map(tuple, res.obs.data.get("callbacks") or []))
        for key, n in reg.items():
            rec = res.obs.futures.get(key[0])
            if rec is None or fut_state(rec)[0] in ("pending", "running", "nofuture"):
                continue
            if ran.get(key, 0) != n:
                out.append(V(self.id, "C04/done-callback-ran-%d-times" % ran.get(key, 0), "callback %r registered %d times, ran %d times" % (key, n, ran.get(key, 0))))
                break
        return out

    def features(self, res):
        f = {}
        for rec in res.obs.futures.values():
            st, p = fut_state(rec)
            if st == "exc":
                f["exc:" + p["type"]] = f.get("exc:" + p["type"], 0) + 1
        return f


PROP = C04()
