"""Oracles shared by the executor-simulation properties (C02..C10)."""
import re

from .base import V, fut_state, exec_count, reference, root_alive

BROKEN_TYPES = ("BrokenProcessPool", "TerminatedWorkerError")


def is_broken_exc(summary):
    return "BrokenProcessPool" in summary["mro"]


def conclusive(res, orphans_ok=False):
    if res.outcome == "complete":
        return True
    return orphans_ok and res.outcome in ("deadlock", "livelock") and not root_alive(res)


def injected_kills(res):
    return [f for f in res.run.fault_log if f[0] == "kill" and f[2] != "already-dead" and f[3] is True]


def worker_procs(res, direct_only=True):
    out = []
    for p in res.kernel.procs.values():
        if p.role == "worker" and (not direct_only or p.orig_ppid == 100):
            out.append(p)
    return out


def check_future_outcomes(res, pid, allow_broken=False, allow_shutdown_error=False, require_exec=True):
    """every future holds the outcome of its own task (value or own exception);
    execution counts: <= 1, == 0 when cancel() returned True, == 1 otherwise."""
    out = []
    counts = exec_count(res.obs)
    for fid, rec in res.obs.futures.items():
        if not rec.get("submitted"):
            continue
        ts = rec["task"]
        key = repr(ts["id"])
        n = counts.get(key, 0)
        st, payload = fut_state(rec)
        ref = reference(ts, rec.get("args", ()))
        if n > 1:
            out.append(V(pid, "%s/executed-more-than-once" % pid, "task %r executed %d times" % (ts["id"], n)))
        if rec.get("cancel") is True:
            if n != 0:
                out.append(V(pid, "%s/cancelled-task-executed" % pid,
                             "cancel() returned True for task %r but its body ran" % (ts["id"],)))
            if st != "cancelled":
                out.append(V(pid, "%s/cancelled-future-not-cancelled" % pid,
                             "cancel() returned True for %r but the future is %s" % (ts["id"], st)))
            continue
        if st in ("pending", "running"):
            continue   # liveness is the hang oracle's business
        if st == "cancelled":
            out.append(V(pid, "%s/spurious-cancel" % pid, "future %r cancelled although cancel() did not return True" % (fid,)))
            continue
        if st == "exc" and allow_broken and is_broken_exc(payload):
            continue
        if st == "exc" and allow_shutdown_error and payload["type"] == "ShutdownExecutorError":
            continue
        if ref[0] == "value":
            if st != "value" or payload != ref[1]:
                out.append(V(pid, "%s/wrong-outcome/%s" % (pid, st if st != "exc" else payload["type"]),
                             "task %r: expected value %r, future holds %s %r" % (ts["id"], ref[1], st,
                                                                                  payload if st == "value" else payload["type"] + ":" + payload["msg"][:200])))
            elif require_exec and n != 1 and ts.get("kind") != "big":
                out.append(V(pid, "%s/value-without-execution" % pid, "task %r has a value but ran %d times" % (ts["id"], n)))
        elif ref[0] == "exc":
            ok = st == "exc" and payload["type"] == ref[1]
            if ok and ref[2] is not None and payload["args"] != ref[2]:
                ok = False
            if ok and payload["cause"] != "_RemoteTraceback":
                ok = False
            if not ok:
                out.append(V(pid, "%s/wrong-exception/%s" % (pid, payload["type"] if st == "exc" else st),
                             "task %r: expected %s%r with a remote traceback, got %s %r" % (
                                 ts["id"], ref[1], ref[2], st, payload)))
            else:
                txt = payload["cause_text"] or ""
                want = "_feed" if ref[1] in ("PicklingError", "RuntimeError") and rec.get("args") else "Traceback"
                if want not in txt:
                    out.append(V(pid, "%s/remote-traceback-missing" % pid, "task %r: cause text lacks %r" % (ts["id"], want)))
        elif ref[0] == "pool":
            if not (st == "exc" and is_broken_exc(payload)):
                if not allow_broken:
                    continue
                out.append(V(pid, "%s/pool-breaking-task-not-broken/%s" % (pid, st),
                             "task %r takes the pool down but its future holds %s %r" % (ts["id"], st, payload)))
    return out


def check_maps(res, pid):
    out = []
    from .. import tasks
    counts = exec_count(res.obs)
    for mid, rec in (res.obs.data.get("maps") or {}).items():
        if rec["out"] is None and rec["exc"] is None:
            continue
        its = [range(off, off + n) for off, n in rec["its"]]
        exp = [tasks.ref_mapfn(mid, *xs) for xs in zip(*its)]
        if rec["exc"] is not None:
            out.append(V(pid, "%s/map-raised/%s" % (pid, rec["exc"]["type"]), "map %r raised %r" % (mid, rec["exc"])))
            continue
        if rec["out"] != exp:
            out.append(V(pid, "%s/map-differs" % pid, "map %r chunksize %r lens %r: got %r expected %r" % (
                mid, rec["chunksize"], rec["its"], rec["out"][:8], exp[:8])))
        for e in exp:
            n = counts.get(repr(e), 0)
            if n != 1:
                out.append(V(pid, "%s/map-element-executed-%s" % (pid, "twice" if n > 1 else "never"),
                             "map %r element %r executed %d times" % (mid, e, n)))
                break
    return out


def check_not_broken(res, pid, what="pool flagged broken although no worker died abruptly"):
    out = []
    for n, info in res.obs.executors.items():
        b = info["flags"].broken
        if b is not None:
            out.append(V(pid, "%s/broken-without-crash/%s" % (pid, type(b).__name__),
                         "%s: executor %d broken with %s: %s" % (what, n, type(b).__name__, str(b)[:300])))
    return out


def check_workers_clean(res, pid):
    """every worker left with status 0 and was reaped by the root."""
    out = []
    reaped = {(x[1]) for x in res.kernel.log if x[0] == "reap" and x[2] == 100}
    for p in worker_procs(res):
        if p.status is None:
            continue
        if p.status != ("exit", 0):
            out.append(V(pid, "%s/worker-exit-status/%s%s" % (pid, p.status[0], p.status[1]),
                         "worker %d ended with %r although nothing killed it" % (p.pid, p.status)))
        elif p.pid not in reaped and conclusive(res):
            out.append(V(pid, "%s/worker-not-reaped" % pid, "worker %d was never waited for by its parent" % p.pid))
    return out


TW_RE = re.compile(r"The exit codes of the workers are \{([^}]*)\}")


def check_terminated_message(res, pid, summary):
    """a TerminatedWorkerError names a non-empty set of true exit statuses."""
    m = TW_RE.search(summary["msg"]) or TW_RE.search(" ".join(map(str, summary["args"])))
    if not m:
        return [V(pid, "%s/terminated-error-without-exit-codes" % pid, "message: %s" % summary["msg"][:300])]
    items = [x.strip() for x in m.group(1).split(",") if x.strip()]
    if not items:
        return [V(pid, "%s/terminated-error-empty-exit-codes" % pid, "message: %s" % summary["msg"][:300])]
    truth = set()
    import signal
    for p in worker_procs(res):
        if p.status is None:
            continue
        kind, v = p.status
        if kind == "exit":
            truth.add("EXIT(%d)" % v if v != 255 else "UNKNOWN(255)")
        else:
            truth.add("%s(%d)" % (signal.Signals(v).name, -v))
    bad = [i for i in items if i not in truth]
    if bad:
        return [V(pid, "%s/terminated-error-wrong-exit-codes" % pid, "listed %r, true statuses %r" % (items, sorted(truth)))]
    return []


def exec_state(run):
    """abstract state of the executors after a scheduler step (coverage measure only)."""
    from .. import runtime as rt
    k = rt.RT.kernel
    procs = k.procs
    parts = []
    for n, info in run.obs.executors.items():
        if n > 1:
            break
        fl = info["flags"]
        pr = info["processes"]
        parts.append((fl.shutdown, fl.broken is not None, fl.kill_workers, min(len(info["pending"]), 3),
                      min(len(info["running"]), 3), min(len(pr), 4),
                      min(sum(1 for p in pr if procs[p].alive), 4), info["wref"]() is None))
    roles = []
    for t in procs[100].tasks:
        if t.state != "D" and t.role in ("manager", "feeder"):
            roles.append((t.role, t.what, t.state))
    return hash((tuple(parts), tuple(sorted(roles)))) & 0xFFFFFFFF
