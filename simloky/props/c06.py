"""C06 - forced shutdown is prompt, total and explicit."""
from .base import Prop, V, gen_knobs, gen_model, submit_op, hang_violations, fut_state
from . import execfam as X

BOUND = 100.0      # virtual seconds; running tasks would take 1e3 or 1e6


def gen(rng, tier):
    D = rng.choice([1e3, 1e6])
    via = rng.choice(["shutdown", "shutdown", "reusable"])
    workers = rng.randint(1, 3)
    threads = [[]]
    main = threads[0]
    if via == "shutdown":
        main.append({"op": "create", "ex": "A", "kw": {"max_workers": workers, "timeout": rng.choice([None, 10.0, 0.05])}})
    else:
        main.append({"op": "reusable", "ex": "A", "kw": {"max_workers": workers, "timeout": rng.choice([10.0, 0.05])}})
    fid = 0
    n = rng.randint(0, 8)
    for _ in range(n):
        r = rng.random()
        if r < 0.55:
            ts = dict(id=fid, kind="work", dur=D)
        elif r < 0.7:
            ts = dict(id=fid, kind="work", dur=rng.choice([0, 0.01, 0.2]))
        elif r < 0.85:
            depth = rng.randint(1, 2)
            sub = dict(id=1000 + fid, kind="work", dur=D)
            if depth == 2:
                sub = dict(id=1000 + fid, kind="nested", dur=0,
                           nested=dict(workers=1, sub=[dict(id=2000 + fid, kind="work", dur=D)]))
            ts = dict(id=fid, kind="nested", dur=0, nested=dict(workers=rng.randint(1, 2), sub=[sub]))
        elif r < 0.93:
            ts = dict(id=fid, kind="child", dur=0, child_dur=D, hold=D)
        elif r < 0.97:
            ts = dict(id=fid, kind="child", dur=0, child_dur=D, hold=0.01)       # finishes, leaves a subprocess behind
        else:
            ts = dict(id=fid, kind="nested_leave", dur=0, sub_dur=D)             # finishes, leaves a busy nested executor
        main.append(submit_op("A", fid, ts, []))
        fid += 1
        if rng.random() < 0.2:
            main.append({"op": "sleep", "d": rng.choice([0.001, 0.03, 0.3])})
    if rng.random() < 0.8:
        main.append({"op": "sleep", "d": rng.choice([0.0, 0.001, 0.021, 0.05, 0.3, 1.0])})
    if rng.random() < 0.15:
        # the pool is idle (nothing pending) when the forced shutdown arrives, but workers have descendants
        main = [o for o in main if not (o["op"] == "submit" and o["task"].get("dur", 0) >= 1e3)
                and not (o["op"] == "submit" and o["task"].get("kind") in ("nested",))
                and not (o["op"] == "submit" and o["task"].get("kind") == "child" and o["task"].get("hold", 0) >= 1e3)]
        threads[0] = main
        main.append(submit_op("A", 7000, dict(id=7000, kind=rng.choice(["child", "nested_leave"]), dur=0, child_dur=D, hold=0.01, sub_dur=D), []))
        main.append({"op": "wait_all"})
    if rng.random() < 0.2:
        # the pool is already shutting down gracefully (and not waited for) when the forced shutdown arrives
        main.append({"op": "shutdown", "ex": "A", "wait": False})
        if rng.random() < 0.5:
            main.append({"op": "sleep", "d": rng.choice([0.0, 0.001, 0.05])})
    if via == "shutdown":
        main.append({"op": "shutdown", "ex": "A", "wait": True, "kill": True})
    else:
        main.append({"op": "reusable", "ex": "B", "kw": {"max_workers": rng.randint(1, 3), "timeout": 33.0, "kill_workers": True}})
    main.append({"op": "submit_expect_error", "ex": "A", "id": 9000})
    main.append({"op": "wait_all", "which": "all"})
    if via == "reusable":
        main.append(submit_op("B", 9500, dict(id=9500, kind="work", dur=0), []))
        main.append({"op": "result", "f": 9500})
        main.append({"op": "shutdown", "ex": "B", "wait": True, "kill": True})
    return dict(family="kill", knobs=gen_knobs(rng, tier), model=gen_model(rng), threads=threads, faults=[], D=D, via=via,
                watch_flag_looks=True)


def _ancestors(k, p):
    out = []
    while p.orig_ppid in k.procs and p.orig_ppid != 100:
        out.append(p.orig_ppid)
        p = k.procs[p.orig_ppid]
    return out


class C06(Prop):
    id = "C06"
    track_states = True
    quick_runs = 1500
    thorough_runs = 30000
    assumptions = ["'prompt' is checked as: virtual time between call and return < %g s while running tasks last 1e3 or 1e6 s" % BOUND,
                   "psutil / pgrep answers come from the simulated process table; kill_process_tree's own logic is real"]

    def gen(self, rng, tier):
        return gen(rng, tier)

    def program(self, spec):
        from .. import program as prog

        def monitor(run):
            if "kill_flag_step" not in run.obs.data:
                for info in run.obs.executors.values():
                    if info["flags"].kill_workers:
                        from .. import runtime as rt
                        run.obs.data["kill_flag_step"] = rt.RT.sched.steps
                        break

        def program(run):
            run.monitors.append(monitor)
            prog.Interp(run, spec).main()
        return program

    def check(self, res):
        pid = self.id
        out = hang_violations(res, pid)
        if out or not X.conclusive(res, orphans_ok=True):
            return out
        via = res.spec["via"]
        call = None
        for e in res.obs.events:
            if e["phase"] == "call" and ((via == "shutdown" and e["op"] == "shutdown" and e["o"].get("kill")) or
                                         (via == "reusable" and e["op"] == "reusable" and e["o"]["kw"].get("kill_workers"))):
                call = e
                break
        ret = None
        if call is not None:
            for e in res.obs.events:
                if e["thread"] == call["thread"] and e["i"] == call["i"] and e["phase"] in ("ret", "exc"):
                    ret = e
        if call is None or ret is None:
            return out
        dt = ret["now"] - call["now"]
        # a worker that decided to leave on idle time-out right before / while the call was handled
        racing = [n for n in res.obs.notes if n[0] == "mpinfo" and n[3].startswith("Shutting down worker after timeout")
                  and res.kernel.procs[n[1]].orig_ppid == 100 and n[2] <= ret["now"] + 1e-9
                  and (res.kernel.procs[n[1]].death is None or res.kernel.procs[n[1]].death >= call["now"] - 1e-9)]
        # the manager thread had already entered join_executor_internals() for an earlier graceful shutdown
        # (its last look at the kill_workers flag - before the first "found N processes to stop" - saw it unset)
        found = [n[4] for n in res.obs.notes if n[0] == "mpdebug" and n[1] == 100 and n[3].startswith("found ")]
        looks = [n for n in res.obs.notes if n[0] == "mgr-flag-look" and found and n[4] < found[0]]
        kill_set = res.obs.data.get("kill_flag_step")
        joining = bool(found and looks and looks[-1][3] is False and kill_set is not None and looks[-1][4] < kill_set
                       and found[0] <= ret["step"])
        if dt >= BOUND:
            why = "/worker-left-on-timeout-first" if racing else ("/graceful-join-already-started" if joining else "")
            out.append(V(pid, "C06/not-prompt%s" % why, "forced shutdown took %.1f virtual seconds (tasks last %g s)%s" % (
                dt, res.spec["D"], "; workers %r had announced an idle time-out exit" % [n[1] for n in racing] if racing else "")))
        if ret["phase"] == "exc":
            out.append(V(pid, "C06/forced-shutdown-raised/%s" % ret["r"]["e"]["type"], str(ret["r"])[:300]))
            return out
        # state of the process tree when the call returned
        k = res.kernel
        if via == "reusable" and (ret["r"].get("prev") is None or ret["r"].get("same")):
            return out          # nothing was replaced by this call
        wp = ret["r"].get("old_pids") if via == "reusable" else ret["r"].get("pids")
        workers = [k.procs[p] for p in (wp or [])]
        tree = []
        for p in workers:
            tree.append(p)
            tree.extend(k.descendants_by_origin(p.pid))
        for p in tree:
            if p.death is None or p.death > ret["now"] + 1e-9:
                if p.birth <= ret["now"] and p.role != "tracker":
                    when = "born-before-the-call" if p.birth < call["now"] or p.exec_step < call["step"] else "spawned-during-the-call"
                    if when == "born-before-the-call" and racing and any(
                            q.pid in [n[1] for n in racing] for q in [p] + [res.kernel.procs[x] for x in _ancestors(res.kernel, p)]):
                        when = "worker-left-on-timeout-first"
                    elif when == "born-before-the-call" and joining:
                        when = "graceful-join-already-started"
                    out.append(V(pid, "C06/process-survives-forced-shutdown/%s/%s" % (p.role, when),
                                 "pid %d (%s, child of %d, born %.4f) alive when the call (%.4f..%.4f) returned (death=%r)" % (
                                     p.pid, p.role, p.orig_ppid, p.birth, call["now"], ret["now"], p.death)))
                    break
        for rec in res.obs.futures.values():
            if not rec.get("submitted") or rec.get("exn") != 0:
                continue
            st, payload = fut_state(rec)
            if st in ("pending", "running"):
                out.append(V(pid, "C06/future-left-pending", "future of task %r" % rec["task"]["id"]))
            elif st == "exc" and payload["type"] != "ShutdownExecutorError":
                if rec["task"].get("kind") == "nested" and payload["type"] in ("TerminatedWorkerError", "BrokenProcessPool"):
                    continue
                out.append(V(pid, "C06/unfinished-future-fails-with-%s" % payload["type"], payload["msg"][:200]))
            elif st == "value":
                from .base import reference
                ref = reference(rec["task"])
                if ref[0] == "value" and payload != ref[1]:
                    out.append(V(pid, "C06/misattributed-result", "task %r holds %r" % (rec["task"]["id"], payload)))
                if rec["task"].get("dur", 0) >= 1e3 and rec["task"].get("kind") == "work":
                    out.append(V(pid, "C06/long-task-finished", "task %r (%g s) has a value" % (rec["task"]["id"], rec["task"]["dur"])))
        for e in res.obs.events:
            if e["op"] == "submit_expect_error" and e["phase"] == "ret" and not e["r"].get("skipped"):
                if e["r"].get("accepted"):
                    out.append(V(pid, "C06/submit-accepted-after-forced-shutdown", ""))
                elif e["r"]["e"]["type"] != "ShutdownExecutorError":
                    out.append(V(pid, "C06/later-submit-raises-%s" % e["r"]["e"]["type"], str(e["r"])[:200]))
        return out

    def features(self, res):
        f = {"via:" + res.spec["via"]: 1, "psutil:%s" % res.spec["model"]["psutil"]: 1}
        n = sum(1 for p in res.kernel.procs.values() if p.info.get("depth", 0) >= 2)
        if n:
            f["nested-workers"] = n
        if any(x[0] == "grandchild" for x in res.obs.notes):
            f["grandchild-process"] = 1
        st = {}
        for rec in res.obs.futures.values():
            s, p = fut_state(rec)
            key = s if s != "exc" else p["type"]
            st[key] = st.get(key, 0) + 1
        for k_, v in st.items():
            f["future:" + k_] = v
        return f


PROP = C06()
