"""C18 - every worker is a fresh, initialised interpreter with only intended inheritance."""
from .base import Prop, V, gen_knobs, gen_model, submit_op, hang_violations, fut_state
from . import execfam as X


def gen(rng, tier):
    threads = [[]]
    main = threads[0]
    ctx = rng.choice(["loky", "loky", "loky_init_main"])
    if rng.random() < 0.8:
        main.append({"op": "open_fds", "inh": [rng.randrange(4) for _ in range(rng.randint(0, 6))]})
    if rng.random() < 0.5:
        main.append({"op": "setenv", "key": "PARENT_" + rng.choice("AB"), "value": rng.choice(["1", "", "x y"])})
    env = None
    if rng.random() < 0.6:
        env = {}
        for _ in range(rng.randint(1, 3)):
            env[rng.choice(["NEW_KEY", "PATH", "PARENT_A", "EMPTY", "LOKY_PICKLER"])] = rng.choice(["v1", "", "/x:/y", "cloudpickle"])
        if env.get("LOKY_PICKLER") not in (None, "cloudpickle"):
            env["LOKY_PICKLER"] = "cloudpickle"
    init_mode = rng.choice(["ok", "ok", "ok", "none", "raise", "exit", "kill"])
    kw = {"max_workers": rng.randint(1, 3), "timeout": rng.choice([None, 10.0, 0.05, 0.0]), "context": ctx}
    if env is not None:
        kw["env"] = env
    if init_mode != "none":
        kw["initializer"] = {"marker": "M%d" % rng.randint(1, 9), "mode": init_mode}
    mode = rng.choice(["plain", "reusable"])
    if mode == "plain":
        main.append({"op": "create", "ex": "A", "kw": kw})
    else:
        kw["timeout"] = kw["timeout"] if kw["timeout"] is not None else 10.0
        main.append({"op": "reusable", "ex": "A", "kw": kw})
    fid = 0
    probe = sorted(set(["PATH", "PARENT_A", "PARENT_B"] + list((env or {}).keys())))
    for _ in range(rng.randint(1, 6)):
        r = rng.random()
        ts = dict(id=fid, kind="work", dur=rng.choice([0, 0.01, 0.2]), probe_env=probe)
        if r < 0.12:
            ts = dict(id=fid, kind="leak", dur=0, after=1.5, probe_env=probe)      # memory-leak exit -> respawn
        main.append(submit_op("A", fid, ts, []))
        fid += 1
        q = rng.random()
        if q < 0.25:
            main.append({"op": "sleep", "d": rng.choice([0.06, 0.3, 2.0])})
        elif q < 0.35:
            main.append({"op": "setenv", "key": "PARENT_B", "value": rng.choice(["late", None])})
        elif q < 0.5 and mode == "reusable":
            main.append({"op": "reusable", "ex": "A", "kw": dict(kw, max_workers=rng.randint(1, 3))})
        elif q < 0.6:
            main.append({"op": "wait_all"})
    main.append({"op": "wait_all"})
    polled = False
    for _ in range(rng.randint(0, 2)):
        m = rng.choice(["_exit", "exit", "signal", "return", "raise"])
        code = rng.randrange(256) if m in ("_exit", "exit") else rng.choice([9, 15, 11, 2 if False else 6])
        main.append({"op": "child_exit", "mode": m, "code": code, "probe_before": rng.random() < 0.5,
                     "context": rng.choice(["loky", "loky_init_main"])})
        if rng.random() < 0.5:
            main[-1]["pollers"] = rng.randint(1, 2)
            polled = True
    main.append({"op": "shutdown", "ex": "A", "wait": True})
    kn = gen_knobs(rng, tier, line=False)
    if polled:
        # several threads polling one child: the window is between waitpid() and the assignment of its result
        kn["hot"] = {"poll": rng.choice([0.3, 0.6])}
    return dict(family="fresh", knobs=kn, model=gen_model(rng), threads=threads, faults=[],
                ctx=ctx, init_mode=init_mode, envkw=env)


class C18(Prop):
    id = "C18"
    quick_runs = 1500
    thorough_runs = 30000
    claim = ("the simulated exec records, for every spawned process, the descriptor table it starts with, its "
             "environment and argv; seeded search over extra descriptors open in the parent (inheritable or not), env= "
             "overlays (new keys, overrides, empty values) with the parent's environment changing between spawns, both "
             "loky start methods, initializers (ok / raising / exiting / killed) with workers brought in by time-outs, "
             "memory-leak exits and resizes, and plain LokyProcess children ending with every exit code and several "
             "signals, their exit status read by the joining thread and by 1-2 concurrently polling threads")
    assumptions = ["close_fds/pass_fds semantics and the wait-status encoding are the kernel model's",
                   "'deliberately passed' descriptors = the keep-list handed to fork_exec, cross-checked by usage: every "
                   "inherited descriptor must be used or closed by the child, or be a tracker handle / the liveness sentinel's write end",
                   "runpy is recorded, not executed"]

    def gen(self, rng, tier):
        return gen(rng, tier)

    def check(self, res):
        pid = self.id
        out = hang_violations(res, pid)
        if out or not X.conclusive(res):
            return out
        k = res.kernel
        spec = res.spec
        extra = set()
        for r, w in res.obs.data.get("extra_fds", []):
            extra.update((r, w))
        runpy = {}
        for x in k.log:
            if x[0] == "runpy":
                runpy.setdefault(x[1], []).append(x)
        init = spec["init_mode"]
        marker = None
        for e in res.obs.events:
            if e["op"] in ("create", "reusable") and e["phase"] == "call":
                i = e["o"]["kw"].get("initializer")
                marker = i["marker"] if i else None
                break
        for p in k.procs.values():
            if p.role != "worker":
                continue
            if not p.info.get("close_fds"):
                out.append(V(pid, "C18/close-fds-off", "process %d spawned with close_fds false" % p.pid))
            stray = sorted(set(p.exec_fds) & extra)
            if stray:
                out.append(V(pid, "C18/stray-descriptor-inherited/user-fd", "process %d inherited %r opened by the application" % (p.pid, stray)))
            if set(p.exec_fds) - set(p.info.get("pass_fds", [])):
                out.append(V(pid, "C18/descriptor-outside-keep-list", "process %d: %r" % (p.pid, sorted(set(p.exec_fds) - set(p.info["pass_fds"])))))
            seen_pipe = {}
            for fd, n, mode, origin, born in p.info.get("exec_pipes", []):
                if origin in ("wakeup", "user", "errpipe"):
                    out.append(V(pid, "C18/stray-descriptor-inherited/%s" % origin, "process %d inherited fd %d (%s end of a %s pipe)" % (p.pid, fd, mode, origin)))
                if origin == "launch" and born < p.info.get("parent_prev_exec_step", -1):
                    out.append(V(pid, "C18/stray-descriptor-inherited/other-launch", "process %d inherited fd %d of an earlier worker's launch pipes" % (p.pid, fd)))
                if origin == "launch" and n in seen_pipe:
                    out.append(V(pid, "C18/stray-descriptor-inherited/parent-end-of-launch-pipe", "process %d holds both ends of launch pipe %d" % (p.pid, n)))
                seen_pipe[n] = mode
            # environment at exec == parent's at that moment overlaid with env=
            is_pool_worker = p.orig_ppid == 100 and p.info.get("pool")
            if is_pool_worker:
                want = dict(p.info["parent_env_at_exec"])
                if spec["ctx"] == "loky":          # documented: env= only works with the loky context
                    want.update(spec["envkw"] or {})
                if p.exec_env != want:
                    diff = {kk: (p.exec_env.get(kk), want.get(kk)) for kk in set(p.exec_env) | set(want) if p.exec_env.get(kk) != want.get(kk)}
                    out.append(V(pid, "C18/environment-differs", "process %d: (got, expected) %r" % (p.pid, diff)))
            # __main__ re-run only under loky_init_main
            ctx = p.info.get("ctx")
            if ctx == "loky" and p.pid in runpy:
                out.append(V(pid, "C18/main-rerun-under-loky", "process %d: %r" % (p.pid, runpy[p.pid])))
            if ctx == "loky_init_main" and p.info.get("booted") and len(runpy.get(p.pid, [])) != 1:
                out.append(V(pid, "C18/main-not-initialised-under-loky_init_main", "process %d: %r" % (p.pid, runpy.get(p.pid))))
        # every task ran on an initialised worker
        for e in res.obs.exec_log:
            if k.procs[e["pid"]].orig_ppid != 100:
                continue
            if marker is not None and e["init"] != marker:
                out.append(V(pid, "C18/task-on-uninitialised-worker", "task %r ran on worker %d with init marker %r (expected %r)" % (e["task"], e["pid"], e["init"], marker)))
                break
            want = dict(k.procs[e["pid"]].exec_env)
            got = e.get("env_probe") or {}
            bad = {kk: (v, want.get(kk)) for kk, v in got.items() if v != want.get(kk)}
            if bad:
                out.append(V(pid, "C18/task-sees-other-environment", repr(bad)))
                break
        if init in ("raise", "exit", "kill") and res.obs.futures:
            info = res.obs.executors.get(0)
            ran = [e for e in res.obs.exec_log if k.procs[e["pid"]].orig_ppid == 100]
            if ran:
                out.append(V(pid, "C18/task-ran-despite-initializer-failure", repr(ran[0])))
            if info is not None and info["flags"].broken is None and any(r.get("submitted") for r in res.obs.futures.values()):
                out.append(V(pid, "C18/initializer-failure-did-not-break-pool", "initializer mode %s" % init))
        if init in ("ok", "none"):
            out += X.check_future_outcomes(res, pid)
        # exit status and sentinel of plain children
        for e in res.obs.events:
            if e["op"] == "child_exit" and e["phase"] == "ret":
                r = e["r"]
                o = e["o"]
                kind, v = r["truth"]
                want = v if kind == "exit" else -v
                for n_, v_, alive_ in r.get("seen", []):
                    if v_ != want:
                        out.append(V(pid, "C18/exitcode-unfaithful/concurrent-poll", "child ended with %r, a polling thread read "
                                     "Process.exitcode=%r" % (r["truth"], v_)))
                        break
                if r["exitcode"] != want:
                    out.append(V(pid, "C18/exitcode-unfaithful", "child ended with %r, Process.exitcode=%r" % (r["truth"], r["exitcode"])))
                exp = {"_exit": ("exit", o["code"]), "exit": ("exit", o["code"]), "signal": ("sig", o["code"]),
                       "return": ("exit", 0), "raise": ("exit", 1)}[o["mode"]]
                if tuple(r["truth"]) != exp:
                    out.append(V(pid, "C18/child-ended-differently", "mode %s code %r: kernel says %r" % (o["mode"], o["code"], r["truth"])))
                if not r["ready_after"] or r["is_alive"]:
                    out.append(V(pid, "C18/sentinel-not-ready-after-death", repr(r)))
                if r["ready_before"] is True and r["alive_truth_before"]:
                    out.append(V(pid, "C18/sentinel-ready-while-alive", repr(r)))
            if e["op"] == "child_exit" and e["phase"] == "exc":
                out.append(V(pid, "C18/child-process-api-raised/%s" % e["r"]["e"]["type"], str(e["r"])[:300]))
        return out

    def features(self, res):
        sp = res.spec
        f = {"ctx:" + sp["ctx"]: 1, "init:" + sp["init_mode"]: 1, "env-overlay" if sp["envkw"] else "no-env-overlay": 1}
        n = len([p for p in res.kernel.procs.values() if p.role == "worker"])
        f["workers>%d" % min(n, 6)] = 1
        if res.obs.data.get("extra_fds"):
            f["extra-fds-open"] = len(res.obs.data["extra_fds"])
        for e in res.obs.events:
            if e["op"] == "child_exit" and e["phase"] == "ret":
                f["child:%s" % e["o"]["mode"]] = f.get("child:%s" % e["o"]["mode"], 0) + 1
        if any(n_[0] == "mpinfo" and n_[3].startswith("Memory leak") for n_ in res.obs.notes):
            f["memory-leak-exit"] = 1
        return f


PROP = C18()
