"""C03 - right result to the right future, at-most-once execution, map == map."""
from .base import focus_hot, Prop, gen_knobs, gen_model, submit_op, hang_violations
from . import execfam as X


def gen(rng, tier):
    mode = rng.choice(["plain", "plain", "reusable"])
    workers = rng.randint(1, 3)
    nthreads = rng.choice([1, 2, 3])
    timeout = rng.choice([None, 0.0, 0.01, 0.2, 10.0])
    threads = [[] for _ in range(nthreads)]
    main = threads[0]
    if mode == "plain":
        main.append({"op": "create", "ex": "A", "kw": {"max_workers": workers, "timeout": timeout}})
    main.append({"op": "start_users"})
    fid = 0
    mid = 0
    for th in range(nthreads):
        ops = threads[th]
        if mode == "reusable":
            ops.append({"op": "reusable", "ex": "A", "kw": {"max_workers": workers, "timeout": timeout or 10.0}})
        mine = []
        for _ in range(rng.randint(1, 6)):
            r = rng.random()
            if r < 0.3:
                nit = rng.randint(1, 3)
                its = [[rng.randrange(0, 50) * 10, rng.randint(0, 7)] for _ in range(nit)]
                n = min(x[1] for x in its)
                name = "t%dm%d" % (th, mid)
                mid += 1
                ops.append({"op": "map", "ex": "A", "m": name, "its": its, "chunksize": rng.randint(1, n + 2)})
                if rng.random() < 0.5:
                    ops.append({"op": "sleep", "d": rng.choice([0.001, 0.05, 0.5])})
                ops.append({"op": "map_collect", "m": name})
            else:
                ts = dict(id=fid, kind="work", dur=rng.choice([0, 0, 0.001, 0.05, 0.3]))
                ops.append(submit_op("A", fid, ts, []))
                mine.append(fid)
                fid += 1
                q = rng.random()
                if q < 0.25:
                    ops.append({"op": "cancel", "f": rng.choice(mine)})
                elif q < 0.4:
                    ops.append({"op": "sleep", "d": rng.choice([0.0005, 0.01, 0.3])})
                elif q < 0.5 and mode == "reusable":
                    ops.append({"op": "reusable", "ex": "A", "kw": {"max_workers": rng.randint(1, 3), "timeout": timeout or 10.0}})
        ops.append({"op": "wait_all"})
    if nthreads > 1:
        main.append({"op": "join_users"})
    main.append({"op": "shutdown", "ex": "A", "wait": True})
    return dict(family="routing", knobs=focus_hot(rng, gen_knobs(rng, tier), threads), model=gen_model(rng), threads=threads, faults=[])


class C03(Prop):
    id = "C03"
    track_states = True
    quick_runs = 2000
    thorough_runs = 40000
    assumptions = ["values are unique per task, so every result is attributable to one submission",
                   "the execution log is written by the task bodies themselves (omniscient harness view)"]

    def gen(self, rng, tier):
        return gen(rng, tier)

    def check(self, res):
        out = hang_violations(res, self.id)
        if out or not X.conclusive(res):
            return out
        out += X.check_future_outcomes(res, self.id)
        out += X.check_maps(res, self.id)
        return out

    def features(self, res):
        f = {}
        for m in (res.obs.data.get("maps") or {}).values():
            f["map-chunksize-%d" % min(m["chunksize"], 9)] = 1
            f["map-iterables-%d" % len(m["its"])] = 1
        c = sum(1 for r in res.obs.futures.values() if r.get("cancel") is True)
        if c:
            f["cancel-succeeded"] = c
        if len(X.worker_procs(res)) > 3:
            f["respawned"] = 1
        return f


PROP = C03()
