"""C10 - resizing preserves submitted work and surviving workers, and terminates."""
from .base import focus_hot, Prop, V, gen_knobs, gen_model, submit_op, hang_violations
from . import execfam as X


def gen(rng, tier):
    old = rng.randint(1, 4)
    new = rng.randint(1, 4)
    timeout = rng.choice([10.0, 10.0, 33.0, 0.2, 0.05, 0.0, None, None])
    threads = [[]]
    main = threads[0]
    main.append({"op": "reusable", "ex": "A", "kw": {"max_workers": old, "timeout": timeout}})
    fid = 0
    # make sure workers exist (a submit starts them), possibly leave work in flight
    n0 = rng.randint(1, 3)
    for _ in range(n0):
        main.append(submit_op("A", fid, dict(id=fid, kind="work", dur=rng.choice([0, 0.01])), []))
        fid += 1
    if rng.random() < 0.7:
        main.append({"op": "wait_all"})
    if rng.random() < 0.4:
        main.append({"op": "sleep", "d": rng.choice([0.001, 0.04, 0.19, 0.5])})
    for _ in range(rng.randint(0, 5)):
        main.append(submit_op("A", fid, dict(id=fid, kind="work", dur=rng.choice([0, 0.01, 0.1, 0.5])), []))
        fid += 1
    main.append({"op": "reusable", "ex": "A", "kw": {"max_workers": new, "timeout": timeout}, "resize": True})
    for _ in range(rng.randint(0, 3)):
        main.append(submit_op("A", fid, dict(id=fid, kind="work", dur=rng.choice([0, 0.01])), []))
        fid += 1
    if rng.random() < 0.3:
        main.append({"op": "reusable", "ex": "A", "kw": {"max_workers": rng.randint(1, 4), "timeout": timeout}, "resize": True})
    main.append({"op": "wait_all"})
    if rng.random() < 0.6:
        main.append({"op": "sleep", "d": rng.choice([0.01, 0.3, 2.0])})
    main.append({"op": "shutdown", "ex": "A", "wait": True})
    faults = []
    r = rng.random()
    if r < 0.3:
        if rng.random() < 0.3:
            # a worker added by the resize dies while it starts up
            faults.append(dict(kind="kill", target=["w", old + rng.randrange(3)], sig=rng.choice([9, 11]),
                               at=["op", rng.randint(1, 12)]))
        else:
            faults.append(dict(kind="kill", target=["w", rng.randrange(old)], sig=rng.choice([9, 11]),
                               at=["op", rng.randint(8, 140)]))
    kn = gen_knobs(rng, tier)
    if timeout is not None and timeout < 1 and rng.random() < 0.6:
        kn["J"] = rng.choice([0.05, 1.0])
        kn["p_time"] = rng.choice([0.05, 0.2])
    kn = focus_hot(rng, kn, threads)
    return dict(family="resize", knobs=kn, model=gen_model(rng), threads=threads, faults=faults, old=old, new=new)


class C10(Prop):
    id = "C10"
    track_states = True
    quick_runs = 1500
    thorough_runs = 40000
    assumptions = ["'kept rather than restarted' is checked only when no worker left or died between the beginning "
                   "and the end of the resize call (kernel truth), as the statement says"]

    def gen(self, rng, tier):
        return gen(rng, tier)

    def check(self, res):
        pid = self.id
        out = hang_violations(res, pid)
        if out or not X.conclusive(res):
            return out
        kills = X.injected_kills(res)
        out += X.check_future_outcomes(res, pid, allow_broken=bool(kills))
        if not kills:
            out += X.check_not_broken(res, pid, "resize without deaths")
        for e in res.obs.events:
            if e["op"] != "reusable" or e["phase"] != "ret" or not e["o"].get("resize"):
                continue
            r = e["r"]
            kw = e["o"]["kw"]
            call = [c for c in res.obs.events if c["thread"] == e["thread"] and c["i"] == e["i"] and c["phase"] == "call"][0]
            if not r["same"] or r["prev"] is None:
                continue
            if r["broken"] or r["shutdown"]:
                continue
            if r["max_workers"] != kw["max_workers"]:
                out.append(V(pid, "C10/max-workers-not-updated", "requested %d, executor says %d" % (kw["max_workers"], r["max_workers"])))
            quiet = not any(x[0] == "exit" and x[1] >= 102 and call["now"] - 1e-6 <= x[3] <= e["now"] + 1e-6
                            for x in res.kernel.log)
            # a worker that decided to leave on idle time-out (or memory leak) during the call
            quiet = quiet and not any(n[0] == "mpinfo" and call["now"] - 1e-6 <= n[2] <= e["now"] + 1e-6
                                      and not n[3].startswith("Shutting down worker on sentinel")
                                      for n in res.obs.notes)
            # ... or before the call but not yet gone when it began
            for n in res.obs.notes:
                if n[0] == "mpinfo" and n[2] < call["now"] and not n[3].startswith("Shutting down worker on sentinel"):
                    p_ = res.kernel.procs[n[1]]
                    if p_.death is None or p_.death >= call["now"] - 1e-6:
                        quiet = False
            # sentinels left over from an earlier shrink (posted for workers that timed out instead) make further
            # workers leave "on sentinel": more such exits than this call asked for means a worker left meanwhile
            n_sent = sum(1 for n in res.obs.notes if n[0] == "mpinfo" and n[3].startswith("Shutting down worker on sentinel")
                         and call["now"] - 1e-6 <= n[2] <= e["now"] + 1e-6 and res.kernel.procs[n[1]].orig_ppid == 100)
            if n_sent > max(0, len(r["old_pids"]) - kw["max_workers"]):
                quiet = False
            # a worker still registered when the call began although it was already gone
            for op_ in r["old_pids"]:
                d_ = res.kernel.procs[op_].death
                if d_ is not None and d_ <= e["now"] + 1e-6:
                    quiet = False
            changed = r["prev"]["max_workers"] != kw["max_workers"]
            if quiet and changed and r["started"]:
                if len(r["pids"]) != kw["max_workers"] or sorted(r["alive"]) != sorted(r["pids"]):
                    out.append(V(pid, "C10/wrong-number-of-live-workers", "resize %d->%d returned with registered %r alive %r" % (
                        r["prev"]["max_workers"], kw["max_workers"], r["pids"], r["alive"])))
                kept = set(r["pids"]) & set(r["old_pids"])
                want = min(len(r["old_pids"]), kw["max_workers"])
                if len(kept) != want:
                    out.append(V(pid, "C10/workers-restarted-instead-of-kept", "resize %d->%d: old %r new %r kept %d expected %d" % (
                        r["prev"]["max_workers"], kw["max_workers"], r["old_pids"], r["pids"], len(kept), want)))
        return out

    def features(self, res):
        f = {"resize-%d-%d" % (res.spec["old"], res.spec["new"]): 1}
        for e in res.obs.events:
            if e["op"] == "reusable" and e["phase"] == "ret" and e["o"].get("resize"):
                call = [c for c in res.obs.events if c["thread"] == e["thread"] and c["i"] == e["i"] and c["phase"] == "call"][0]
                if any(x[0] == "exit" and x[1] >= 102 and call["now"] <= x[3] <= e["now"] for x in res.kernel.log):
                    f["worker-exit-during-resize"] = 1
                if e["r"]["broken"]:
                    f["broken-at-return"] = 1
        if any("Trying to resize" in w[2] for w in res.run.warnings):
            f["resize-with-running-jobs"] = 1
        return f


PROP = C10()
