"""C02 - abrupt worker death is always detected and fails the pool loudly."""
from .base import focus_hot, Prop, V, gen_knobs, gen_model, gen_task, submit_op, hang_violations, fut_state
from . import execfam as X

DEATH_KINDS = ["exit", "kill"]


def gen_below_full(rng, tier):
    """a worker dies while the pool is below its full size (another worker has just left on idle time-out) and a
    submit() - from the main thread or from a done-callback on the manager thread - tops the pool up again."""
    model = gen_model(rng)
    workers = rng.randint(2, 3)
    timeout = rng.choice([0.05, 0.2])
    main = [{"op": "create", "ex": "A", "kw": {"max_workers": workers, "timeout": timeout}}, {"op": "start_users"}]
    fid = 0
    nlong = rng.randint(1, workers - 1)
    for _ in range(nlong):
        main.append(submit_op("A", fid, dict(id=fid, kind="work", dur=rng.choice([1.0, 5.0])), []))
        fid += 1
    for _ in range(rng.randint(0, 2)):
        main.append(submit_op("A", fid, dict(id=fid, kind="work", dur=0), []))
        if rng.random() < 0.4:
            main.append({"op": "callback", "f": fid, "mode": "submit"})
        fid += 1
    t_leave = model["boot"] + timeout
    main.append({"op": "sleep", "d": max(0.0, t_leave + rng.choice([-0.001, 0.0, 0.0, 0.001, 0.01]))})
    for _ in range(rng.randint(1, 2)):
        main.append(submit_op("A", fid, dict(id=fid, kind="work", dur=rng.choice([0, 0.1])), []))
        if rng.random() < 0.3:
            main.append({"op": "callback", "f": fid, "mode": "submit"})
        fid += 1
    main.append({"op": "wait_all"})
    main.append({"op": "submit_expect_error", "ex": "A", "id": 9000})
    main.append({"op": "wait_all", "which": "all"})
    if rng.random() < 0.6:
        main.append({"op": "shutdown", "ex": "A", "wait": True})
    faults = [dict(kind="kill", target=["w", rng.randrange(workers)], sig=rng.choice([9, 9, 11]),
                   at=["time", max(0.0, t_leave + rng.choice([-0.002, -0.001, 0.0, 0.0, 0.001, 0.002]))])]
    kn = focus_hot(rng, gen_knobs(rng, tier), [main])
    kn["J"] = min(kn["J"], 0.05)
    return dict(family="death", knobs=kn, model=model, threads=[main], faults=faults, variant="below-full")


def gen(rng, tier, sweep=None):
    if sweep is None and rng.random() < 0.2:
        return gen_below_full(rng, tier)
    workers = rng.randint(1, 4)
    nthreads = rng.choice([1, 1, 2])
    threads = [[] for _ in range(nthreads)]
    main = threads[0]
    kw = {"max_workers": workers, "timeout": rng.choice([None, None, 10.0, 0.05])}
    if rng.random() < 0.2:
        kw["initializer"] = {"marker": "i", "mode": rng.choice(["ok", "ok", "exit", "kill", "raise"])}
    main.append({"op": "create", "ex": "A", "kw": kw})
    main.append({"op": "start_users"})
    fid = 0
    death_in_task = rng.random() < 0.5
    for th in range(nthreads):
        ops = threads[th]
        for _ in range(rng.randint(1, 6)):
            if death_in_task and rng.random() < 0.25:
                ts, args = gen_task(rng, fid, DEATH_KINDS, durs=(0, 0.01, 0.1))
            else:
                ts, args = gen_task(rng, fid, ["work", "work", "work", "raise", "big"], durs=(0, 0.01, 0.1, 1.0))
            ops.append(submit_op("A", fid, ts, args))
            fid += 1
            if rng.random() < 0.15:
                ops.append({"op": "sleep", "d": rng.choice([0.001, 0.05, 0.5])})
            if rng.random() < 0.08:
                ops.append({"op": "cancel", "f": rng.randrange(fid)})
        ops.append({"op": "wait_all"})
    if nthreads > 1:
        main.append({"op": "join_users"})
    main.append({"op": "submit_expect_error", "ex": "A", "id": 9000})
    main.append({"op": "wait_all", "which": "all"})
    if rng.random() < 0.6:
        main.append({"op": "shutdown", "ex": "A", "wait": True})
    faults = []
    if sweep is not None:
        faults.append(dict(kind="kill", target=["w", sweep[0]], sig=sweep[2], at=["op", sweep[1]]))
    elif not death_in_task or rng.random() < 0.4:
        for _ in range(rng.choice([1, 1, 2])):
            faults.append(dict(kind="kill", target=["w", rng.randrange(workers)],
                               sig=rng.choice([9, 9, 11, 15]), at=["op", rng.randint(1, 120)]))
    return dict(family="death", knobs=focus_hot(rng, gen_knobs(rng, tier), threads), model=gen_model(rng), threads=threads, faults=faults)


class C02(Prop):
    id = "C02"
    track_states = True
    quick_runs = 2500
    thorough_runs = 50000
    assumptions = [
        "crash points are operation boundaries of the simulated kernel (every read/write/lock/semaphore/wait/exec "
        "operation of the victim), not arbitrary machine instructions",
        "deaths after the worker announced its clean exit, and deaths once shutdown was requested with nothing "
        "pending, are outside the property's antecedent and only checked for hangs and for legal future states",
    ]

    def gen(self, rng, tier):
        if tier == "thorough" and rng.random() < 0.5:
            # kill-point sweep: six fixed programs, the victim's operation index drawn uniformly from its whole
            # life (start-up, initializer, idle, reading a task, running, sending, announcing, exiting)
            import random
            k = rng.randrange(6)
            spec = gen(random.Random(4242 + k), tier)
            workers = spec["threads"][0][0]["kw"]["max_workers"]
            spec["faults"] = [dict(kind="kill", target=["w", rng.randrange(workers)], sig=rng.choice([9, 11, 15]),
                                   at=["op", rng.randint(1, 260)])]
            spec["knobs"] = gen_knobs(rng, tier)
            spec["fixed_program"] = k
            return spec
        return gen(rng, tier)

    def check_bounded_detection(self, res):
        """bounded liveness for runs that never quiesce (step cap): a worker killed by the fault engine while the
        pool was in service must have been noticed within 20 s + 3 J of virtual time, provided the manager thread
        is in its normal loop (not blocked on a lock or message of a dead process: those are other findings)."""
        info = res.obs.executors.get(0)
        if info is None or info["flags"].broken is not None or info["flags"].shutdown:
            return []
        mgr = [t for t in (res.sched.snapshot or []) if t["pid"] == 100 and t["role"] == "manager"]
        if not mgr or any((t.get("waits_for") or {}).get("acquirer_alive") is False or t["what"] in ("read", "sem", "lock", "waitpid")
                          for t in mgr):
            return []
        bound = 20.0 + 3 * res.spec["knobs"].get("J", 0)
        for f in X.injected_kills(res):
            p = res.kernel.procs[f[1]]
            if p.role != "worker" or p.orig_ppid != 100:
                continue
            announced = any(n[0] == "mpinfo" and n[1] == p.pid and n[2] <= f[5] + 1e-9 for n in res.obs.notes)
            if not announced and res.sched.now - f[5] > bound:
                return [V(self.id, "C02/death-not-detected-within-bound",
                          "worker %d was killed (signal %d) at t=%.3f; %.1f virtual seconds and %d steps later the pool is "
                          "still in service, not flagged broken, and the manager thread is in its normal loop" % (
                              p.pid, f[2], f[5], res.sched.now - f[5], res.sched.steps))]
        return []

    def check(self, res):
        pid = self.id
        out = hang_violations(res, pid)
        if not out and res.outcome == "step_cap":
            return self.check_bounded_detection(res)
        if out or not X.conclusive(res):
            return out
        # no fabricated value, every future in a legal state
        out += X.check_future_outcomes(res, pid, allow_broken=True)
        info = res.obs.executors.get(0)
        if info is None:
            return out
        broken = info["flags"].broken
        # the future whose body was running on a victim cannot have a value
        dead = {p.pid: p for p in X.worker_procs(res) if p.status is not None and p.status != ("exit", 0)}
        victims_running = [e for e in res.obs.exec_log if e["t1"] is None and e["pid"] in dead]
        for e in victims_running:
            rec = None
            for r in res.obs.futures.values():
                if r["task"]["id"] == e["task"]:
                    rec = r
            if rec is None:
                continue
            st, payload = fut_state(rec)
            if not (st == "exc" and X.is_broken_exc(payload)):
                out.append(V(pid, "C02/victims-task-not-failed/%s" % st,
                             "task %r was running on worker %d when it died (%r) but its future holds %s %r" % (
                                 e["task"], e["pid"], dead[e["pid"]].status, st, payload)))
            if broken is None:
                out.append(V(pid, "C02/death-not-detected", "worker %d died (%r) while running task %r but the pool "
                             "was never flagged broken" % (e["pid"], dead[e["pid"]].status, e["task"])))
        if broken is not None:
            from ..program import exc_summary
            bs = exc_summary(broken)
            if not X.is_broken_exc(bs):
                out.append(V(pid, "C02/broken-flag-is-not-BrokenProcessPool", repr(bs)[:300]))
            if "TerminatedWorkerError" in bs["mro"]:
                out += X.check_terminated_message(res, pid, bs)
            else:
                if bs["cause"] != "_RemoteTraceback":
                    out.append(V(pid, "C02/unpickling-break-without-traceback", repr(bs)[:300]))
            import concurrent.futures.process as cfp
            if not isinstance(broken, cfp.BrokenProcessPool):
                out.append(V(pid, "C02/not-the-concurrent-futures-exception", type(broken).__name__))
            # every pending future got *that* error; later submit raises that same error
            for rec in res.obs.futures.values():
                st, payload = fut_state(rec)
                if st == "exc" and X.is_broken_exc(payload) and rec["fut"]._exception is not broken:
                    out.append(V(pid, "C02/future-failed-with-a-different-broken-error", payload["msg"][:200]))
                    break
            for e in res.obs.events:
                if e["op"] == "submit_expect_error" and e["phase"] == "ret" and not e["r"].get("skipped"):
                    r = e["r"]
                    if e["now"] >= 0 and r.get("accepted"):
                        # accepted before the break was flagged is legal; its future must then be failed
                        continue
                    if not r.get("accepted") and r["e"]["type"] != "ShutdownExecutorError" and not r.get("same_as_broken"):
                        out.append(V(pid, "C02/later-submit-raises-another-error/%s" % r["e"]["type"], str(r["e"])[:300]))
            # all workers dead and reaped by the root
            reaped = {x[1] for x in res.kernel.log if x[0] == "reap" and x[2] == 100}
            for p in X.worker_procs(res):
                if p.alive:
                    out.append(V(pid, "C02/worker-survives-broken-pool", "worker %d still alive" % p.pid))
                elif p.pid not in reaped:
                    out.append(V(pid, "C02/worker-not-reaped", "worker %d (%r) never waited for" % (p.pid, p.status)))
        return out

    def features(self, res):
        f = {}
        if res.spec.get("fixed_program") is not None:
            f["sweep-program-%d" % res.spec["fixed_program"]] = 1
        for fl in res.run.fault_log:
            if fl[0] == "kill" and fl[2] != "already-dead":
                f["kill-fired"] = f.get("kill-fired", 0) + 1
                if res.spec.get("fixed_program") is not None:
                    res.run.states.add("sweep:%d:%d:%d" % (res.spec["fixed_program"], fl[4], fl[2]))
        for p in X.worker_procs(res):
            if p.status is not None and p.status != ("exit", 0):
                f["death:%s%s" % p.status] = f.get("death:%s%s" % p.status, 0) + 1
        info = res.obs.executors.get(0)
        if info is not None and info["flags"].broken is not None:
            f["broken:" + type(info["flags"].broken).__name__] = 1
        # kill points actually hit: (operation index of the victim, signal) - counted as distinct in evidence
        for fl in res.run.fault_log:
            if fl[0] == "kill" and fl[2] != "already-dead" and fl[3] is True:
                res.run.states.add("kp:%d:%d" % (fl[4], fl[2]))
        # where was the victim when it died (operation kind)
        for t in res.sched.tasks:
            if t.role == "worker-main" and t.proc.status is not None and t.proc.status[0] == "sig":
                f["victim-at:" + t.what] = f.get("victim-at:" + t.what, 0) + 1
        return f


PROP = C02()
