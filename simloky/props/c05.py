"""C05 - graceful shutdown drains all submitted work and leaves nothing behind."""
from .base import focus_hot, Prop, V, gen_knobs, gen_model, gen_task, submit_op, hang_violations
from . import execfam as X

TIMEOUTS = [None, None, 0.0, 0.01, 0.05, 1.0, 10.0]
MANAGER_LOOP = ["is_shutting_down", "process_result_item", "weakref_cb", "run", "add_call_item_to_queue",
                "wait_result_broken_or_wakeup", "flag_executor_shutting_down", "shutdown", "_python_exit",
                "_on_queue_feeder_error", "_feed", "shutdown_workers", "join_executor_internals"]


def gen(rng, tier):
    workers = rng.randint(1, 3)
    nthreads = rng.choice([1, 1, 2])
    kinds = ["work"] * 4 + rng.sample(["raise", "bad_arg", "bad_result", "slow_arg", "big_arg", "big"], rng.randint(0, 3))
    threads = [[] for _ in range(nthreads)]
    main = threads[0]
    main.append({"op": "create", "ex": "A", "kw": {"max_workers": workers, "timeout": rng.choice(TIMEOUTS)}})
    main.append({"op": "start_users"})
    fid = 0
    burst = rng.choice([2, 4, 8, 12])
    for th in range(nthreads):
        for _ in range(rng.randint(0, burst)):
            ts, args = gen_task(rng, fid, kinds, durs=(0, 0, 0.01, 0.1, 0.5))
            threads[th].append(submit_op("A", fid, ts, args))
            fid += 1
            if rng.random() < 0.15:
                threads[th].append({"op": "sleep", "d": rng.choice([0.001, 0.02, 0.3, 2.0])})
            if rng.random() < 0.08:
                threads[th].append({"op": "cancel", "f": rng.randrange(fid)})
        if th > 0:
            threads[th].append({"op": "wait_all"})
    race = nthreads > 1 and rng.random() < 0.4
    if race:
        # the shutdown races with the other thread's submits (possibly its first one, which starts the manager)
        if rng.random() < 0.5:
            del main[2:]
    elif nthreads > 1:
        main.append({"op": "join_users"})
    if rng.random() < 0.3 and not race:
        # a late pickling error: the feeder's error path runs while the shutdown is in progress
        ts, args = gen_task(rng, fid, ["bad_arg"], durs=(0,))
        main.append(submit_op("A", fid, ts, args))
        fid += 1
        late = True
    else:
        late = False
    end = rng.choice(["wait", "wait", "nowait", "nowait", "with", "del", "del", "none", "nowait+wait"])
    if race:
        end = rng.choice(["wait", "wait", "with", "nowait+wait"])
    if not late and rng.random() < (0.7 if end == "del" else 0.3):
        main.append({"op": "wait_all"})
    if rng.random() < 0.3:
        main.append({"op": "sleep", "d": rng.choice([0.001, 0.05, 0.5, 3.0])})
    if end == "wait":
        main.append({"op": "shutdown", "ex": "A", "wait": True})
    elif end == "nowait":
        main.append({"op": "shutdown", "ex": "A", "wait": False})
    elif end == "nowait+wait":
        main.append({"op": "shutdown", "ex": "A", "wait": False})
        main.append({"op": "shutdown", "ex": "A", "wait": True})
    elif end == "with":
        main.append({"op": "with", "ex": "A"})
    elif end == "del":
        main.append({"op": "del", "ex": "A"})
        if rng.random() < 0.7:
            main.append({"op": "wait_all", "which": "all"})
            main.append({"op": "sleep", "d": 200.0})
            main.append({"op": "probe_gc_shutdown", "n": 0})
    if race:
        main.append({"op": "join_users"})
    if end not in ("del", "none"):
        main.append({"op": "submit_expect_error", "ex": "A", "id": 9000})
    if rng.random() < 0.5:
        main.append({"op": "wait_all", "which": "all"})
    kn = gen_knobs(rng, tier)
    if rng.random() < 0.4:
        # the shutdown protocol lives in the manager loop: concentrate line pre-emption there
        kn["hot"] = {f: rng.choice([0.2, 0.5]) for f in rng.sample(MANAGER_LOOP, rng.randint(1, 2))}
    kn = focus_hot(rng, kn, threads, p=0.5)
    return dict(family="shutdown", knobs=kn, model=gen_model(rng), threads=threads, faults=[],
                hold_refs=rng.random() < 0.7, end=end)


class C05(Prop):
    id = "C05"
    track_states = True
    quick_runs = 2500
    thorough_runs = 40000
    assumptions = ["no worker is killed in these scenarios; shutdown forms: explicit (waited or not), context "
                   "manager, del + collection, interpreter exit", "interpreter finalisation order is a model"]

    def gen(self, rng, tier):
        return gen(rng, tier)

    def check(self, res):
        out = hang_violations(res, self.id)
        if out or not X.conclusive(res):
            return out
        out += X.check_future_outcomes(res, self.id)
        out += X.check_not_broken(res, self.id, "graceful shutdown")
        out += X.check_workers_clean(res, self.id)
        for e in res.obs.events:
            if e["phase"] != "ret":
                continue
            r = e.get("r") or {}
            if e["op"] in ("shutdown", "with") and e["o"].get("wait", True) and not r.get("skipped"):
                if r.get("mgr_alive"):
                    out.append(V(self.id, "C05/manager-alive-after-waited-shutdown", "shutdown(wait=True) returned with the manager thread alive"))
                if r.get("workers_alive"):
                    out.append(V(self.id, "C05/workers-alive-after-waited-shutdown", "workers %r alive when shutdown(wait=True) returned" % (r["workers_alive"],)))
                if len(res.obs.executors) == 1:
                    if r.get("any_mgr_alive") and not r.get("mgr_alive"):
                        out.append(V(self.id, "C05/manager-alive-after-waited-shutdown/started-during-the-call",
                                     "shutdown(wait=True) returned while a manager thread of the process is running"))
                    if r.get("any_workers_alive") and not r.get("workers_alive") and len(res.obs.executors) == 1:
                        out.append(V(self.id, "C05/workers-alive-after-waited-shutdown/spawned-during-the-call",
                                     "workers %r alive when shutdown(wait=True) returned" % (r["any_workers_alive"],)))
                if r.get("zombies"):
                    out.append(V(self.id, "C05/zombie-after-waited-shutdown", "workers %r not reaped" % (r["zombies"],)))
            if e["op"] == "probe_gc_shutdown" and r.get("collected") and res.sched.knobs["J"] <= 1.0:
                # the executor object is gone and 200 virtual seconds have passed with nothing pending
                if r["mgr_alive"] or r["workers_alive"]:
                    out.append(V(self.id, "C05/gc-shutdown-never-started", "executor collected, nothing pending, 200 s later: "
                                 "manager alive=%r, workers alive=%r, shutdown flag=%r" % (r["mgr_alive"], r["workers_alive"], r["shutdown_flag"])))
            if e["op"] == "submit_expect_error" and not r.get("skipped"):
                if r.get("accepted"):
                    out.append(V(self.id, "C05/submit-accepted-after-shutdown", "submit() after shutdown returned a future"))
                elif r["e"]["type"] != "ShutdownExecutorError":
                    out.append(V(self.id, "C05/submit-after-shutdown-raises-%s" % r["e"]["type"], str(r["e"])[:300]))
        return out

    def features(self, res):
        f = {"end:" + res.spec.get("end", "?"): 1}
        if any("A worker stopped" in w[2] for w in res.run.warnings):
            f["respawn-warning"] = 1
        nw = len(X.worker_procs(res))
        f["workers>%d" % min(nw, 6)] = 1
        return f


PROP = C05()
