"""Common pieces of the per-property scenario families and oracles."""
import random

from .. import kernel as sk
from .. import program as prog
from .. import tasks

STICKS = [0.0, 0.3, 0.6, 0.9]
P_TIMES = [0.0, 0.02, 0.1]
JS = [0.0, 0.001, 0.05, 1.0, 40.0]
ROLES = ["manager", "feeder", "worker-main", "main", "tracker-main"]


HOT = ["is_shutting_down", "process_result_item", "add_call_item_to_queue", "wait_result_broken_or_wakeup",
       "weakref_cb", "flag_executor_shutting_down", "shutdown_workers", "join_executor_internals", "terminate_broken",
       "submit", "shutdown", "_adjust_process_count", "_ensure_executor_running", "_resize", "_wait_job_completion",
       "get_reusable_executor", "_on_queue_feeder_error", "_feed", "kill_workers", "run", "_python_exit",
       "wait", "notify", "notify_all", "set", "clear"]


def gen_knobs(rng, tier="quick", line=True, max_steps=60000):
    k = dict(stick=rng.choice(STICKS), p_time=rng.choice(P_TIMES), J=rng.choice(JS),
             line_q=0.0, bias={}, max_steps=max_steps)
    if line and rng.random() < 0.25:
        k["line_q"] = rng.choice([0.01, 0.05])
    if line and rng.random() < 0.3:
        # concentrate pre-emption on one or two functions of the protocol (swarm style)
        k["hot"] = {f: rng.choice([0.15, 0.4]) for f in rng.sample(HOT, rng.randint(1, 2))}
    if rng.random() < 0.3:
        k["bias"] = {rng.choice(ROLES): rng.choice([0.1, 0.1, 5.0])}
    r = rng.random()
    if r < 0.15:
        k["pct"] = rng.choice([1, 2, 3])      # strict random priorities with d change points (PCT)
    elif r < 0.3:
        # one pre-emption point placed at the k-th operation of one role (sweep over k across runs)
        k["pct_at"] = {"role": rng.choice(["main", "main", "manager", "feeder", "worker-main", "user1"]),
                       "op": rng.randint(1, 250)}
    elif r < 0.42 and line:
        # one delay placed at the n-th executed line of one protocol function (sweep over n across runs):
        # the delayed thread resumes only when nobody else can run
        k["line_at"] = {"func": rng.choice(HOT), "n": rng.randint(1, 60)}
    return k


RARE_PATHS = {
    # feature of the generated program -> functions of the rarely executed path it exercises
    "bad_arg": ["_on_queue_feeder_error", "_feed", "terminate_broken"],
    "del": ["is_shutting_down", "weakref_cb", "process_result_item"],
    "reusable": ["_resize", "_wait_job_completion", "get_reusable_executor", "_adjust_process_count"],
    "cancel": ["add_call_item_to_queue", "terminate_broken", "flag_executor_shutting_down"],
    "timeout": ["process_result_item", "_adjust_process_count", "_ensure_executor_running", "submit"],
    "death": ["terminate_broken", "wait_result_broken_or_wakeup", "kill_workers", "submit"],
    "shutdown": ["shutdown", "flag_executor_shutting_down", "shutdown_workers", "join_executor_internals", "run"],
}


def focus_hot(rng, knobs, threads, p=0.35):
    """with probability p concentrate line pre-emption on the rare paths this program exercises."""
    if rng.random() >= p:
        return knobs
    feats = set()
    for ops in threads:
        for o in ops:
            if o["op"] == "del":
                feats.add("del")
            if o["op"] == "reusable":
                feats.add("reusable")
            if o["op"] == "cancel":
                feats.add("cancel")
            if o["op"] in ("shutdown", "with"):
                feats.add("shutdown")
            if o["op"] == "create" and (o["kw"].get("timeout") is not None and o["kw"]["timeout"] < 2):
                feats.add("timeout")
            if o["op"] == "submit":
                if any(a[0] in ("bad_reduce",) for a in o.get("args", [])):
                    feats.add("bad_arg")
                if o["task"].get("kind") in ("exit", "kill", "bad_result_rebuild"):
                    feats.add("death")
    cands = sorted(set(f for k in feats for f in RARE_PATHS[k]))
    if cands:
        if rng.random() < 0.4 and not knobs.get("pct") and not knobs.get("pct_at"):
            knobs.pop("hot", None)
            knobs["line_at"] = {"func": rng.choice(cands), "n": rng.randint(1, 50)}
        else:
            knobs["hot"] = {f: rng.choice([0.2, 0.5]) for f in rng.sample(cands, min(len(cands), rng.randint(1, 2)))}
    return knobs


def gen_model(rng):
    return dict(cpu=rng.choice([1, 2, 2, 4]), psutil=rng.random() < 0.8,
                boot=rng.choice([0.005, 0.02, 0.02, 0.1]))


class Prop:
    id = "C00"
    level = "exploration"
    technique = "deterministic simulation with fault injection (seeded schedule/fault search)"
    quick_runs = 1500
    thorough_runs = 30000
    assumptions = []

    def gen(self, rng, tier):
        raise NotImplementedError

    def program(self, spec):
        return prog.program_from_spec(spec)

    def check(self, res):
        return []

    def features(self, res):
        return {}

    def nontrivial(self, res):
        s = res.sched
        return bool(res.run.fault_log) or s.preempt_switches > 0 or s.timer_fires_early > 0

    def sample(self, spec):
        return spec


def V(prop, signature, message, **extra):
    d = dict(prop=prop, signature=signature, message=message)
    d.update(extra)
    return d


# ---------------------------------------------------------------- observations
def fut_state(rec):
    """('pending'|'running'|'cancelled'|'value'|'exc', payload) without sim ops."""
    f = rec.get("fut")
    if f is None:
        return ("nofuture", None)
    st = f._state
    if st in ("PENDING", "RUNNING"):
        return (st.lower(), None)
    if st in ("CANCELLED", "CANCELLED_AND_NOTIFIED"):
        return ("cancelled", None)
    if f._exception is not None:
        return ("exc", prog.exc_summary(f._exception))
    return ("value", prog._js(f._result))


def exec_count(obs):
    c = {}
    for e in obs.exec_log:
        k = repr(e["task"])
        c[k] = c.get(k, 0) + 1
    return c


def reference(ts, args=()):
    """reference evaluation of a task on a healthy pool:
    ('value', v) | ('exc', typename, args|None) | ('pool', reason)"""
    for a in args:
        if a[0] == "bad_reduce":
            return ("exc", "RuntimeError" if a[1] == "struct" else "PicklingError", None)
        if a[0] == "bad_rebuild":
            return ("pool", "unpickle-task")
    kind = ts.get("kind", "work")
    if kind in ("work", "leak", "sems", "lock_token"):
        return ("value", ["ok", ts["id"]])
    if kind == "retmarked":
        return ("value", ["marked", ts["id"], None])
    if kind == "raise":
        return ("exc", ts["exc"], [ts["id"], "task-raised"])
    if kind == "bad_result":
        return ("exc", ts.get("exc", "ValueError"), ["cannot pickle BadReduce"])
    if kind == "big":
        return ("value", ["big", ts["n"]])
    if kind in ("exit", "kill"):
        return ("pool", "worker-death")
    if kind == "bad_result_rebuild":
        return ("pool", "unpickle-result")
    if kind == "nested":
        return ("nested", None)
    if kind in ("child", "nested_leave"):
        return ("value", ["ok", ts["id"]])
    raise sk.HarnessError("no reference for %r" % (ts,))


def root_alive(res):
    return res.kernel.procs[100].alive


def mgr_state(res):
    """root-cause oriented description of the root's management threads."""
    died = []
    for role, tname, msg, fn in res.sched.task_errors:
        if role in ("manager", "feeder"):
            died.append("%s-died:%s@%s" % (role, tname, fn))
    for name, tname, msg, fn in res.run.thread_excs:
        if name.startswith("ExecutorManagerThread") or name.startswith("QueueFeederThread"):
            died.append("%s-died:%s@%s" % ("manager" if name[0] == "E" else "feeder", tname, fn))
    mdied = sorted(set(d for d in died if d.startswith("manager")))
    if mdied:
        dead0 = sorted(set(t["role"].rstrip("0123456789") for t in (res.sched.snapshot or [])
                           if t.get("waits_for") and t["waits_for"].get("acquirer_alive") is False))
        # e.g. shutdown_workers() gives up with queue.Full because the workers that should drain the call queue
        # are blocked on a lock held by a dead process
        return ",".join(mdied + (["blocked-on-dead:" + "+".join(dead0)] if dead0 else []))
    blocked = []
    for t in (res.sched.snapshot or []):
        if t["pid"] == 100 and t["role"] == "manager":
            w = t.get("waits_for")
            extra = ""
            if w and w.get("acquirer_alive") is False:
                extra = "(held-by-dead-process)"
            blocked.append("manager-in:%s/%s%s" % (inner_loky(t["where"]), t["what"], extra))
    # a task of the root may be waiting for a nested executor that hangs inside a worker
    nested = []
    for t in (res.sched.snapshot or []):
        if t["pid"] != 100 and t["role"] == "manager" and t["alive"]:
            w = t.get("waits_for")
            extra = "(held-by-dead-process)" if w and w.get("acquirer_alive") is False else ""
            nested.append("nested-manager-in:%s/%s%s" % (inner_loky(t["where"]), t["what"], extra))
    fdied = sorted(set(d for d in died if d.startswith("feeder")))
    ctx = []
    if blocked:
        gone = any(i["wref"]() is None and len(i["pending"]) for i in res.obs.executors.values())
        alive = 0
        for i in res.obs.executors.values():
            alive += sum(1 for pid in i["processes"] if res.kernel.procs[pid].alive)
        ctx = ["ex-gone" if gone else "ex-alive", "w%s" % ("0" if alive == 0 else "+")]
    dead = sorted(set(t["role"].rstrip("0123456789") for t in (res.sched.snapshot or [])
                      if t.get("waits_for") and t["waits_for"].get("acquirer_alive") is False
                      and t["role"] != "manager"))
    if dead:
        ctx.append("blocked-on-dead:" + "+".join(dead))
    es = getattr(res.kernel.procs[100], "exit_step", None)
    if blocked and es is not None and not dead:
        for t in (res.sched.snapshot or []):
            if t["pid"] == 100 and t["role"] == "manager" and t["what"] == "wait" and (
                    t["born_step"] >= es - 400):
                # the manager thread was started (by another thread's first submit) around the time the main
                # thread began interpreter shutdown: the exit protocol never reached it
                ctx.append("manager-started-at-interpreter-exit")
                break
    for t in (res.sched.snapshot or []):
        if t["pid"] == 100 and t["role"] != "manager" and t["what"] == "sem" and "loky:_resize" in t["where"] \
                and "put" in t["where"]:
            # a shrinking _resize blocked in call_queue.put(None) on a full queue while it holds the management lock
            ctx.append("resize-blocked-in-put")
            break
    if any("join_executor_internals/waitpid" in b for b in blocked) and not dead:
        swept = [t for (k_, t, s_) in res.kernel.kills if k_ == 100 and s_ == 9]
        for i in res.obs.executors.values():
            if i["flags"].broken is not None and swept:
                # terminate_broken() killed every worker registered at the break: a registered worker that is
                # alive now and younger than all of those was spawned into the broken executor afterwards
                late = [p.pid for p in res.kernel.procs.values()
                        if p.alive and p.role == "worker" and p.orig_ppid == 100 and p.pid > max(swept)]
                if late:
                    ctx.append("late-worker-in-broken-executor")
                    break
    snap = res.sched.snapshot or []
    for t in snap:
        if t["what"] == "waitpid" and "_exit_function" in t["where"] and t["role"].endswith("-main"):
            # a process at interpreter exit joins a child worker that nobody manages: its executor has live
            # workers but no manager thread (submit() raised in the middle of spawning them)
            kids = [p for p in res.kernel.procs.values() if p.alive and p.role == "worker" and p.ppid == t["pid"]]
            if kids and not any(u["pid"] == t["pid"] and u["role"] == "manager" for u in snap):
                ctx.append("%s-exit-joins-unmanaged-worker" % ("root" if t["pid"] == 100 else "process"))
                break
    if not any(t["pid"] == 100 and t["role"] == "manager" for t in (res.sched.snapshot or [])):
        for i in res.obs.executors.values():
            if i["flags"].shutdown and any(res.kernel.procs[pid].alive for pid in i["processes"]):
                ctx.append("late-worker-in-finished-executor")
                break
    if getattr(res.sched, "spinning", None) and res.outcome == "livelock":
        sp = []
        for t in (res.sched.snapshot or []):
            if t["tid"] in res.sched.spinning and t["what"] != "start":
                sp.append("%s@%s" % (t["role"] if t["pid"] != 100 else "root-" + t["role"].rstrip("0123456789"), inner_loky(t["where"])))
        blocked.append("spinning:" + "+".join(sorted(set(sp))))
    if getattr(res.sched, "livelock_pollers", None) and res.outcome == "livelock":
        pol = []
        for t in (res.sched.snapshot or []):
            if t["tid"] in res.sched.livelock_pollers:
                pol.append("%s@%s" % (t["role"] if t["pid"] != 100 else ("root-" + ("main" if t["role"] == "main" else t["role"].rstrip("0123456789"))), inner_loky(t["where"])))
        blocked.append("pollers:" + "+".join(sorted(set(pol))))
    return ",".join(sorted(set(blocked)) + fdied + ctx + sorted(set(nested))) or "no-manager"


def inner_loky(where):
    for w in where:
        if w.startswith("loky:") and w not in ("loky:__enter__", "loky:__exit__", "loky:acquire", "loky:poll",
                                                 "loky:wait", "loky:put", "loky:<lambda>"):
            return w[5:]
    for w in where:
        if not w.startswith("sim:") and not w.startswith("loky:") and w not in (
                "acquire", "switch", "block_until", "yield_", "wait", "_wait_for_tstate_lock", "__enter__",
                "sleep", "<lambda>"):
            return w
    return "?"


def hang_violations(res, pid):
    """C01 oracle: (a) no API call hangs, (b) every future resolves."""
    out = []
    oc = res.outcome
    if oc in ("deadlock", "livelock") and root_alive(res):
        stuck = [t for t in res.sched.snapshot if t["pid"] == 100 and t["api"] is not None]
        if stuck:
            apis = sorted(set(t["api"][0] for t in stuck))
            sig = "%s/hang/%s/%s/%s" % (pid, oc, mgr_state(res), "+".join(apis))
            out.append(V(pid, sig, "no progress possible (%s) while the user program is inside %s" % (oc, apis),
                         snapshot=res.sched.snapshot))
            return out
    if oc == "complete" or (oc in ("deadlock", "livelock") and not root_alive(res)):
        pend = [r["fid"] for r in res.obs.futures.values()
                if r.get("submitted") and fut_state(r)[0] in ("pending", "running")]
        # a daemon thread of the root (the queue feeder) cut by the interpreter's exit in the middle of an
        # operation may have been about to resolve a future: nobody can observe that future any more
        cut = [c for c in res.kernel.cut_tasks if c[0] == 100 and c[1] in ("feeder", "manager")]
        if pend and not cut:
            sig = "%s/unresolved-at-exit/%s" % (pid, mgr_state(res))
            out.append(V(pid, sig, "futures %r never reached a terminal state" % (pend[:6],)))
    return out


def management_thread_errors(res):
    errs = []
    for role, tname, msg, fn in res.sched.task_errors:
        errs.append((role, tname, fn, msg))
    for name, tname, msg, fn in res.run.thread_excs:
        errs.append((name, tname, fn, msg))
    return errs


# ---------------------------------------------------------------- generators
def gen_task(rng, tid, kinds, durs=(0, 0, 0.01, 0.1, 1.0)):
    kind = rng.choice(kinds)
    ts = dict(id=tid, kind=kind, dur=rng.choice(durs))
    args = []
    if kind == "raise":
        ts["exc"] = rng.choice(["ValueError", "KeyError", "SystemExit", "KeyboardInterrupt",
                                "CustomBase", "CustomError"])
    elif kind == "exit":
        ts["code"] = rng.choice([0, 1, 3, 255])
    elif kind == "kill":
        ts["sig"] = rng.choice([9, 11, 15])
    elif kind == "bad_result":
        ts["exc"] = rng.choice(["ValueError", "CustomError"])
    elif kind == "big":
        ts["n"] = rng.choice([100, 20000, 70000, 200000])
    elif kind == "bad_arg":
        ts["kind"] = "work"
        args.append(["bad_reduce", rng.choice(["ValueError", "CustomError", "struct"])])
    elif kind == "bad_arg_rebuild":
        ts["kind"] = "work"
        args.append(["bad_rebuild"])
    elif kind == "big_arg":
        ts["kind"] = "work"
        args.append(["big", rng.choice([20000, 70000, 200000])])
    elif kind == "slow_arg":
        ts["kind"] = "work"
        args.append(["slow", rng.choice([0.01, 0.2])])
    return ts, args


def submit_op(ex, fid, ts, args):
    o = {"op": "submit", "ex": ex, "f": fid, "task": ts}
    if args:
        o["args"] = args
    return o
