"""C13 - no named semaphore or tracked resource outlives its process tree."""
from .base import Prop, V, gen_knobs, gen_model, submit_op, hang_violations
from . import execfam as X

KINDS = ["Lock", "RLock", "Semaphore", "BoundedSemaphore", "Condition", "Event"]


def gen(rng, tier):
    threads = [[]]
    main = threads[0]
    ending = rng.choice(["normal", "normal", "exception", "worker_crash", "broken", "kill_root", "sysexit"])
    faults = []
    fid = 0
    nm = 0
    clean = ending in ("normal", "sysexit", "exception")
    for _ in range(rng.randint(1, 3)):
        r = rng.random()
        if r < 0.6:
            ex = "A%d" % nm
            kw = {"max_workers": rng.randint(1, 2), "timeout": rng.choice([0.5, 2.0, 10.0])}
            main.append({"op": "create", "ex": ex, "kw": kw})
            for _ in range(rng.randint(0, 3)):
                q = rng.random()
                if q < 0.25:
                    ts = dict(id=fid, kind="sems", dur=0, make=rng.sample(KINDS, rng.randint(1, 3)), keep=rng.random() < 0.5)
                elif q < 0.35 and ending in ("worker_crash", "broken"):
                    ts = dict(id=fid, kind="sems", dur=0, make=rng.sample(KINDS, rng.randint(1, 2)), keep=True,
                              then=rng.choice(["exit", "kill"]))
                elif q < 0.45 and ending == "broken":
                    ts = dict(id=fid, kind=rng.choice(["exit", "kill"]), dur=0, code=3, sig=9)
                else:
                    ts = dict(id=fid, kind="work", dur=rng.choice([0, 0.01, 0.2]))
                main.append(submit_op(ex, fid, ts, []))
                fid += 1
            if rng.random() < 0.7:
                main.append({"op": "wait_all"})
            d = rng.random()
            if d < 0.4:
                main.append({"op": "shutdown", "ex": ex, "wait": True})
            elif d < 0.55:
                main.append({"op": "shutdown", "ex": ex, "wait": False})
            elif d < 0.7:
                main.append({"op": "del", "ex": ex})
            nm += 1
        else:
            name = "s%d" % nm
            main.append({"op": "sync_make", "name": name, "kind": rng.choice(KINDS)})
            if rng.random() < 0.6:
                main.append({"op": "sync_drop", "name": name})
                main.append({"op": "sem_snapshot", "tag": "after-drop"})
            nm += 1
    if ending == "exception":
        main.append({"op": "raise"})
    elif ending == "sysexit":
        main.append({"op": "exit", "code": 3})
    elif ending == "kill_root":
        faults.append(dict(kind="kill", target=["root"], sig=9, at=["step", rng.randint(30, 1500)]))
        main.append({"op": "sleep", "d": 3.0})
    elif ending == "worker_crash":
        faults.append(dict(kind="kill", target=["w", rng.randrange(3)], sig=rng.choice([9, 11]), at=["op", rng.randint(5, 120)]))
    return dict(family="semleak", knobs=gen_knobs(rng, tier, line=False), model=gen_model(rng), threads=threads,
                faults=faults, ending=ending, hold_refs=rng.random() < 0.7)


class C13(Prop):
    id = "C13"
    quick_runs = 1500
    thorough_runs = 30000
    claim = ("the simulated kernel's named-semaphore namespace is the model of /dev/shm/sem.loky-*; seeded search over "
             "histories creating and disposing executors and Lock/RLock/Semaphore/BoundedSemaphore/Condition/Event "
             "objects in the root and in workers, ending by normal exit, sys.exit, uncaught exception, worker crash, "
             "broken pool or SIGKILL of the root at a random step; once every process of the tree has ended the "
             "namespace must be back to its prior (empty) content, dropped objects must disappear at once, clean runs "
             "must not produce a 'leaked' report, and only creators may register/unlink (monitor on the tracker's "
             "request stream)")
    assumptions = ["'the tree has ended' = every simulated process finished; runs where orphans block forever (e.g. "
                   "workers without time-out after a SIGKILL of the root) are inconclusive for this property",
                   "garbage collection of dropped objects is by reference counting (no cycles in these objects)"]

    def gen(self, rng, tier):
        return gen(rng, tier)

    def check(self, res):
        pid = self.id
        out = []
        spec = res.spec
        k = res.kernel
        if spec["ending"] != "kill_root":
            out = hang_violations(res, pid)
            if out:
                return out
        # immediate unlink when the owning object is collected
        for e in res.obs.events:
            if e["op"] == "sem_snapshot" and e["phase"] == "ret":
                if e["r"]["owned_by_dropped"]:
                    out.append(V(pid, "C13/semaphore-survives-its-object", "names %r still linked after the object was dropped" % (e["r"]["owned_by_dropped"],)))
        # only the creator registers / unregisters a name; copies never do
        creators = {x[1]: x[2] for x in k.log if x[0] == "sem_open"}
        for wpid, data in k.pipe_log:
            for line in data.split(b"\n"):
                if not line:
                    continue
                try:
                    cmd, name, rtype = line.decode("ascii").split(":")[0], ":".join(line.decode("ascii").split(":")[1:-1]), line.decode("ascii").split(":")[-1]
                except UnicodeDecodeError:
                    continue
                if rtype == "semlock" and cmd in ("REGISTER", "UNREGISTER", "MAYBE_UNLINK") and name in creators and creators[name] != wpid:
                    out.append(V(pid, "C13/copy-talks-to-tracker", "process %d sent %s for %s created by %d" % (wpid, cmd, name, creators[name])))
                    break
        for x in k.log:
            if x[0] == "sem_unlink" and x[1] in creators and x[2] != creators[x[1]] and x[2] in k.procs and k.procs[x[2]].role != "tracker":
                out.append(V(pid, "C13/copy-unlinks", "process %d unlinked %s created by %d" % (x[2], x[1], creators[x[1]])))
        if res.outcome != "complete":
            return out       # tree has not ended (or inconclusive)
        left = sorted(k.sems)
        if left:
            registered = set()
            for wpid, data in k.pipe_log:
                for line in data.split(b"\n"):
                    if line.startswith(b"REGISTER:"):
                        registered.add(line.decode("latin-1").split(":", 1)[1].rsplit(":", 1)[0])
            reg = [n for n in left if n in registered]
            unreg = [n for n in left if n not in registered]
            if reg:
                out.append(V(pid, "C13/semaphore-outlives-tree/registered/%s" % spec["ending"], "%d registered names left after every process ended: %r" % (len(reg), reg[:5])))
            else:
                owners = sorted(set(creators.get(n) for n in unreg))
                dead = all(k.procs[o].status is not None and k.procs[o].status[0] == "sig" for o in owners if o in k.procs)
                out.append(V(pid, "C13/semaphore-outlives-tree/%s" % ("owner-killed-before-registering" if dead else "never-registered"),
                             "%d names left after every process ended, never registered with the tracker: %r (owners %r)" % (len(unreg), unreg[:5], owners)))
        killed = bool(X.injected_kills(res)) or spec["ending"] in ("kill_root", "worker_crash", "broken")
        crashy = any(p.status is not None and p.status != ("exit", 0) and p.role != "root" for p in k.procs.values())
        if not killed and not crashy:
            leaks = [w for w in res.run.warnings if "leaked" in w[2]]
            if leaks:
                import re as _re
                trackers = {p.pid for p in k.procs.values() if p.role == "tracker"}
                swept = [x[1] for x in k.log if x[0] == "sem_unlink" and x[2] in trackers]
                swept += [m.group(1) for w in res.run.warnings
                          for m in [_re.match(r"resource_tracker: (\S+): FileNotFoundError", w[2])] if m]
                cut = []
                for name in swept:
                    own = [x for x in k.log if x[0] == "sem_unlink" and x[1] == name and x[2] == creators.get(name)]
                    if own and own[0][3] >= 0 and res.sched.tasks[own[0][3]].killed:
                        cut.append(name)
                why = "daemon-thread-cut-at-exit" if swept and len(cut) == len(swept) else spec["ending"]
                out.append(V(pid, "C13/leak-reported-for-released-objects/%s" % why, "%r; swept by the tracker: %r" % (leaks[:2], swept[:4])))
        return out

    def features(self, res):
        f = {"ending:" + res.spec["ending"]: 1}
        n = sum(1 for x in res.kernel.log if x[0] == "sem_open")
        f["sems-created>%d" % (min(n, 40) // 10 * 10)] = 1
        if any("leaked" in w[2] for w in res.run.warnings):
            f["tracker-swept-leftovers"] = 1
        if res.outcome != "complete":
            f["tree-not-ended"] = 1
        return f


PROP = C13()
