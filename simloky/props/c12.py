"""C12 - one resource tracker serves the whole process tree and is self-healing."""
from .base import Prop, V, gen_knobs, gen_model, submit_op, hang_violations, fut_state
from . import execfam as X
from .c19 import chain


OSERRORS = ("OSError", "BrokenPipeError", "ConnectionError", "ConnectionResetError", "ConnectionAbortedError",
            "FileNotFoundError", "ChildProcessError", "ProcessLookupError", "PermissionError")


def gen(rng, tier):
    threads = [[]]
    main = threads[0]
    ctx = rng.choice(["loky", "loky", "loky_init_main"])
    variant = rng.choice(["tree", "tree", "signals", "restart", "crash"])
    kw = {"max_workers": rng.randint(1, 2), "timeout": rng.choice([10.0, 0.5]), "context": ctx}
    main.append({"op": "tracked_op"})
    main.append({"op": "create", "ex": "A", "kw": kw})
    fid = 0
    faults = []
    for _ in range(rng.randint(1, 3)):
        depth = rng.randint(0, 3)
        main.append(submit_op("A", fid, chain(rng, 10000 * (fid + 1), depth, 10), []))
        fid += 1
    if variant == "signals":
        for _ in range(rng.randint(1, 4)):
            faults.append(dict(kind="kill", target=["t", 0], sig=rng.choice([2, 15]),
                               at=rng.choice([["step", rng.randint(1, 60)], ["step", rng.randint(60, 600)],
                                              ["op", rng.randint(1, 12)]])))
    if variant == "crash":
        # the tracker is SIGKILLed at an arbitrary point of its own life while the tree is working (and creating
        # semaphores at every level): every tracked operation that starts afterwards must still succeed
        for _ in range(rng.randint(1, 2)):
            faults.append(dict(kind="kill", target=["t", rng.choice([0, 0, 1])], sig=9,
                               at=rng.choice([["op", rng.randint(1, 60)], ["step", rng.randint(50, 2500)]])))
        for _ in range(rng.randint(0, 2)):
            main.append({"op": "sleep", "d": rng.choice([0.0, 0.01, 0.2])})
            main.append(submit_op("A", fid, chain(rng, 10000 * (fid + 1), rng.randint(0, 2), 10), []))
            fid += 1
    main.append({"op": "wait_all"})
    if variant == "crash":
        main.append({"op": "tracked_op"})
        main.append(submit_op("A", fid, chain(rng, 10000 * (fid + 1), rng.randint(0, 2), 10), []))
        fid += 1
        main.append({"op": "wait_all"})
    if variant == "restart":
        for i in range(rng.randint(1, 3)):
            main.append({"op": "kill_tracker"})
            main.append({"op": "tracked_op"})
            if rng.random() < 0.5:
                main.append(submit_op("A", fid, dict(id=fid, kind="work", dur=0), []))
                fid += 1
                main.append({"op": "wait_all"})
    # members die in some order / by some cause
    end = rng.choice(["shutdown", "shutdown", "exit", "kill_worker", "kill_root"])
    if end == "shutdown":
        main.append({"op": "shutdown", "ex": "A", "wait": True})
    elif end == "kill_worker":
        faults.append(dict(kind="kill", target=["w", rng.randrange(3)], sig=9, at=["step", rng.randint(100, 900)]))
        main.append({"op": "shutdown", "ex": "A", "wait": True})
    elif end == "kill_root":
        faults.append(dict(kind="kill", target=["root"], sig=9, at=["step", rng.randint(150, 1200)]))
        main.append({"op": "sleep", "d": 5.0})
    return dict(family="tracker-tree", knobs=gen_knobs(rng, tier, line=False), model=gen_model(rng), threads=threads,
                faults=faults, ctx=ctx, variant=variant, end=end,
                # the re-imported main module of loky_init_main children performs a tracked operation at import time
                main_tracked_op=(ctx == "loky_init_main" and rng.random() < 0.6))


class C12(Prop):
    id = "C12"
    quick_runs = 1200
    thorough_runs = 20000
    claim = ("seeded search over simulated process trees of depth 0..3 (nested executors, both loky start methods) "
             "whose members end by clean exit, SIGKILL of a worker or of the root; SIGINT/SIGTERM delivered to the "
             "tracker at random steps including between its exec and its signal.signal(SIG_IGN) calls; the tracker "
             "SIGKILLed 1-3 times, each time followed by a tracked operation. Checked: one tracker pid seen by every "
             "process, tracker survives the signals, end-of-life sweep only after the last member is gone, restart "
             "with warning and a working new tracker; a crash family in which the tracker is SIGKILLed at a random "
             "operation of its own life while nested executors create semaphores at every level (everything that starts "
             "after the death must succeed; an operation in flight may fail); loky_init_main children whose re-imported "
             "main module performs a tracked operation at import time")
    assumptions = ["signals are process-directed with per-thread masks inherited across exec; Python-level handlers are not modelled",
                   "after a tracker restart only the restarting process is required to report to the new tracker"]

    def gen(self, rng, tier):
        return gen(rng, tier)

    def check(self, res):
        pid = self.id
        k = res.kernel
        out = []
        spec = res.spec
        if spec["end"] != "kill_root":
            out = hang_violations(res, pid)
        if out:
            if self.inflight_failures(res):
                # a tracked operation that was in flight when the tracker was SIGKILLed failed (allowed) - inside
                # loky's executor internals, which are not exception-safe (finding F25): what hangs afterwards in
                # that process tree is a consequence of that, and is labelled as such
                for v in out:
                    v["signature"] += "/after-inflight-tracker-failure"
            return out
        trackers = [p for p in k.procs.values() if p.role == "tracker"]
        kills = [e for e in res.obs.events if e["op"] == "kill_tracker" and e["phase"] == "ret"]
        tkills = [f for f in X.injected_kills(res) if k.procs[f[1]].role == "tracker" and f[2] == 9]
        kills = kills + tkills
        out += self.check_crash(res, tkills)
        # signals never terminate a tracker
        for t in trackers:
            if t.status is not None and t.status[0] == "sig" and t.status[1] in (2, 15):
                out.append(V(pid, "C12/tracker-killed-by-signal-%d" % t.status[1], "tracker %d died of signal %d (nops=%d)" % (t.pid, t.status[1], t.nops)))
        if not kills:
            nonroot = [t for t in trackers if t.orig_ppid != 100]
            if len(trackers) != 1 or nonroot:
                out.append(V(pid, "C12/more-than-one-tracker", "trackers %r" % [(t.pid, t.orig_ppid) for t in trackers]))
            for n in res.obs.notes:
                if n[0] == "main-import-tracker" and trackers and n[2] != trackers[0].pid:
                    out.append(V(pid, "C12/import-time-operation-reports-to-another-tracker",
                                 "process %d: a tracked operation in the re-imported main module used tracker %r, the "
                                 "tree's tracker is %d" % (n[1], n[2], trackers[0].pid)))
                    break
            seen = set(e["tracker"] for e in res.obs.exec_log)
            if trackers and seen - {trackers[0].pid}:
                out.append(V(pid, "C12/process-reports-to-another-tracker", "tracker pids seen in tasks: %r, real tracker %d" % (sorted(seen, key=str), trackers[0].pid)))
        # end-of-life sweep (EOF seen) only after every other member is gone
        for t in trackers:
            fin = None
            for i, x in enumerate(k.log):
                if x[0] == "finalize" and x[1] == t.pid:
                    fin = i
            if fin is None:
                continue
            later_exits = [x for x in k.log[fin:] if x[0] == "exit" and x[1] != t.pid and k.procs[x[1]].role != "tracker"
                           and t.pid in k.procs[x[1]].info.get("tracker_pids", [t.pid])]
            holders = [x for x in later_exits if k.procs[x[1]].info.get("holds_tracker_pipe_of") in (None, t.pid)]
            if holders and t.status == ("exit", 0) and not kills:
                out.append(V(pid, "C12/tracker-swept-before-last-member-died", "tracker %d finished while %r were still alive" % (t.pid, [x[1] for x in holders])))
        # restarts
        began = {}
        for e in res.obs.events:
            if e["op"] == "tracked_op" and e["phase"] == "call":
                began[(e["thread"], e["i"])] = e["step"]
            if e["op"] == "tracked_op" and e["phase"] == "exc":
                b = began.get((e["thread"], e["i"]), 0)
                if any(b <= f[6] <= e["step"] for f in tkills):
                    continue      # the tracker was killed while this very operation was in flight
                out.append(V(pid, "C12/tracked-operation-failed/%s" % e["r"]["e"]["type"], str(e["r"])[:300]))
        prev_kill = None
        evs = [e for e in res.obs.events if e["phase"] == "ret" and e["op"] in ("kill_tracker", "tracked_op")]
        for i, e in enumerate(evs):
            if e["op"] == "tracked_op" and i > 0 and evs[i - 1]["op"] == "kill_tracker":
                r = e["r"]
                if r["after"] == r["before"] or r["after"] is None:
                    out.append(V(pid, "C12/tracker-not-restarted", "tracker pid before %r after %r" % (r["before"], r["after"])))
                else:
                    nt = k.procs.get(r["after"])
                    if nt is None or nt.role != "tracker":
                        out.append(V(pid, "C12/restarted-tracker-is-not-a-tracker", repr(r)))
                w = [x for x in res.run.warnings if "died unexpectedly" in x[2]]
                if not w:
                    out.append(V(pid, "C12/restart-without-warning", "no 'died unexpectedly, relaunching' warning"))
        return out

    def inflight_failures(self, res):
        """tasks that failed with an OSError while the tracker was being killed (interval contains the kill)."""
        k = res.kernel
        ksteps = [f[6] for f in X.injected_kills(res) if k.procs[f[1]].role == "tracker" and f[2] == 9]
        if not ksteps:
            return []
        bad = []
        for fid, rec in res.obs.futures.items():
            if not rec.get("submitted"):
                continue
            st, payload = fut_state(rec)
            if st == "exc" and "OSError" in payload["mro"]:
                spans = [(e["s0"], e["s1"]) for e in res.obs.exec_log if e["task"] == rec["task"]["id"]]
                if any(s0 <= ks and (s1 is None or ks <= s1) for (s0, s1) in spans for ks in ksteps):
                    bad.append(fid)
        # a task still running on a worker whose process raised inside loky after the kill is covered by the
        # thread / task error records of that process
        for role, tname, msg, fn in res.sched.task_errors:
            if "BrokenPipeError" in msg or "Errno 32" in msg:
                bad.append(tname)
        for name, tname, msg, fn in res.run.thread_excs:
            if "BrokenPipeError" in msg or "Errno 32" in msg or tname == "BrokenPipeError":
                bad.append(name)
        return bad

    def check_crash(self, res, tkills):
        """tracker SIGKILLed by the fault engine: tracked operations (semaphore creation at any level of the tree)
        that *started* after the death must not fail; one in flight at the moment of the kill may."""
        if not tkills:
            return []
        out = []
        ksteps = [f[6] for f in tkills]
        # a worker or the root killed in the same run explains pool-level failures; OSErrors it does not
        other = [f for f in X.injected_kills(res) if res.kernel.procs[f[1]].role != "tracker"]
        # a process of the tree that was alive when the tracker was killed and then ended abnormally by itself had a
        # tracked operation in flight (e.g. the import-time operation of its re-imported main module, during start-up):
        # its death explains pool-level failures as well
        victims = {f[1] for f in X.injected_kills(res)}
        for p in res.kernel.procs.values():
            if p.role in ("worker", "child") and p.pid not in victims and p.status not in (None, ("exit", 0)) \
                    and any(getattr(p, "exec_step", 0) <= ks <= (p.death_step if p.death_step is not None else ks)
                            for ks in ksteps):
                other.append(("self-crash", p.pid))

        def failures(v):
            if isinstance(v, dict):
                for x in v.get("sub", []):
                    yield from failures(x)
            elif isinstance(v, list) and len(v) == 2 and v[0] == "exc":
                yield v[1]

        for fid, rec in res.obs.futures.items():
            if not rec.get("submitted"):
                continue
            st, payload = fut_state(rec)
            bad = []
            if st == "exc" and ("OSError" in payload["mro"] or not other):
                bad.append(payload["type"])
            elif st == "value":
                bad.extend(t for t in failures(payload) if t in OSERRORS or not other)
            if not bad:
                continue
            spans = [(e["s0"], e["s1"]) for e in res.obs.exec_log if e["task"] == rec["task"]["id"]]
            inflight = any(s0 <= ks and (s1 is None or ks <= s1) for (s0, s1) in spans for ks in ksteps)
            if not inflight:
                out.append(V(self.id, "C12/task-failed-after-tracker-death/%s" % bad[0],
                             "task %r failed with %r although the tracker died at steps %r, outside its execution %r" % (
                                 rec["task"]["id"], bad, ksteps, spans)))
        # the root's own tracked operation after the death re-launches a tracker
        died = {f[1] for f in tkills}
        began = {}
        for e in res.obs.events:
            if e["op"] == "tracked_op" and e["phase"] == "call":
                began[(e["thread"], e["i"])] = e["step"]
            if e["op"] == "tracked_op" and e["phase"] == "ret" and e["r"]["before"] in died and began.get(
                    (e["thread"], e["i"]), 0) > max(f[6] for f in tkills if f[1] == e["r"]["before"]):
                if e["r"]["after"] == e["r"]["before"] or e["r"]["after"] is None:
                    out.append(V(self.id, "C12/tracker-not-restarted", "tracker pid before %r after %r" % (e["r"]["before"], e["r"]["after"])))
        return out

    def features(self, res):
        sp = res.spec
        f = {"variant:" + sp["variant"]: 1, "end:" + sp["end"]: 1, "ctx:" + sp["ctx"]: 1}
        md = max([p.info.get("depth", 0) for p in res.kernel.procs.values()])
        f["tree-depth-%d" % md] = 1
        for x in res.kernel.log:
            if x[0] == "sig-pending":
                f["signal-deferred-by-mask"] = f.get("signal-deferred-by-mask", 0) + 1
            if x[0] == "sig-ignored":
                f["signal-ignored"] = f.get("signal-ignored", 0) + 1
        n = len([p for p in res.kernel.procs.values() if p.role == "tracker"])
        f["trackers-%d" % n] = 1
        return f


PROP = C12()
