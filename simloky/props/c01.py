"""C01 - every submitted future resolves and no API call hangs."""
from . import base
from .base import focus_hot, Prop, gen_knobs, gen_model, gen_task, submit_op, hang_violations

ALL_KINDS = ["work", "work", "work", "raise", "exit", "kill", "bad_result", "bad_result_rebuild",
             "big", "bad_arg", "bad_arg_rebuild", "big_arg", "slow_arg"]
TIMEOUTS = [None, None, 0.0, 0.01, 0.05, 1.0, 10.0]


def gen_faults(rng, nworkers, p=0.35, maxn=2):
    faults = []
    if rng.random() < p:
        for _ in range(rng.randint(1, maxn)):
            tgt = ["w", rng.randrange(0, max(1, nworkers + 1))]
            if rng.random() < 0.7:
                at = ["op", rng.randint(1, 160)]
            else:
                at = ["step", rng.randint(20, 900)]
            faults.append(dict(kind="kill", target=tgt, sig=rng.choice([9, 9, 11, 15]), at=at))
    return faults


def gen_mixed(rng, tier, kinds=None, allow_faults=True, ends=None, modes=("plain", "plain", "reusable"),
              max_threads=3, timeouts=TIMEOUTS, max_tasks=5):
    nthreads = rng.choice([1, 1, 2, 3][:max(1, max_threads + 1)]) if max_threads > 1 else 1
    mode = rng.choice(modes)
    if kinds is None:
        kinds = ["work"] + rng.sample(ALL_KINDS, rng.randint(0, 4))
    workers = rng.randint(1, 3)
    timeout = rng.choice(timeouts)
    threads = [[] for _ in range(nthreads)]
    fid = 0
    ends = ends or ["wait", "nowait", "with", "del", "none", "nowait+collect", "del+collect"]
    end = rng.choice(ends)
    main = threads[0]
    if mode == "plain":
        main.append({"op": "create", "ex": "A", "kw": {"max_workers": workers, "timeout": timeout}})
    main.append({"op": "start_users"})
    for th in range(nthreads):
        ops = threads[th]
        if mode == "reusable":
            kw = {"max_workers": rng.randint(1, 3), "timeout": rng.choice(timeouts) if timeouts is not TIMEOUTS
                  else rng.choice([0.0, 0.05, 1.0, 10.0])}
            if rng.random() < 0.3:
                kw["reuse"] = rng.choice([True, False, "auto"])
            if rng.random() < 0.15:
                kw["kill_workers"] = True
            ops.append({"op": "reusable", "ex": "A%d" % th, "kw": kw})
        ex = "A" if mode == "plain" else "A%d" % th
        mine = []
        for _ in range(rng.randint(0, max_tasks)):
            ts, args = gen_task(rng, fid, kinds)
            ops.append(submit_op(ex, fid, ts, args))
            mine.append(fid)
            fid += 1
            r = rng.random()
            if r < 0.12:
                ops.append({"op": "cancel", "f": rng.choice(mine)})
            elif r < 0.2:
                ops.append({"op": "callback", "f": rng.choice(mine), "mode": rng.choice(["ok", "raise", "raise_base", "submit", "submit"])})
            elif r < 0.3:
                ops.append({"op": "sleep", "d": rng.choice([0.001, 0.05, 0.5, 2.0])})
            elif r < 0.36 and mode == "reusable":
                kw = {"max_workers": rng.randint(1, 3), "timeout": rng.choice([0.0, 0.05, 1.0, 10.0])}
                ops.append({"op": "reusable", "ex": ex, "kw": kw})
        if th > 0 or end in ("wait", "with", "none") or rng.random() < 0.5:
            if rng.random() < 0.8:
                ops.append({"op": "wait_all"})
    if mode == "plain":
        if end == "wait":
            main.append({"op": "shutdown", "ex": "A", "wait": True})
        elif end.startswith("nowait"):
            main.append({"op": "shutdown", "ex": "A", "wait": False})
        elif end == "with":
            main.append({"op": "with", "ex": "A"})
        elif end.startswith("del"):
            main.append({"op": "del", "ex": "A"})
        if end.endswith("+collect"):
            main.append({"op": "wait_all", "which": "all"})
    else:
        r = rng.random()
        if r < 0.3:
            main.append({"op": "shutdown", "ex": "A0", "wait": rng.random() < 0.6})
            if rng.random() < 0.5:
                main.append({"op": "reusable", "ex": "A0", "kw": {"max_workers": rng.randint(1, 3)}})
                main.append(submit_op("A0", fid, dict(id=fid, kind="work", dur=0.01), []))
                main.append({"op": "result", "f": fid})
                fid += 1
    spec = dict(family="mixed", knobs=focus_hot(rng, gen_knobs(rng, tier), threads), model=gen_model(rng), threads=threads,
                faults=gen_faults(rng, workers) if allow_faults else [],
                hold_refs=rng.random() < 0.8, join_users=rng.random() < 0.85)
    return spec


class C01(Prop):
    id = "C01"
    track_states = True
    quick_runs = 2500
    thorough_runs = 40000
    assumptions = [
        "task bodies terminate (all generated tasks do)",
        "liveness is decided by exact deadlock / livelock detection on the simulated kernel, "
        "never by a time-out; runs that hit the step cap are counted as inconclusive",
        "the kernel, SemLock, interpreter-exit order and GC timing are models (DESIGN 4)",
    ]

    def gen(self, rng, tier):
        return gen_mixed(rng, tier)

    def check(self, res):
        return hang_violations(res, self.id)

    def features(self, res):
        f = {}
        for e in res.obs.events:
            if e["phase"] == "call":
                f["op:" + e["op"]] = f.get("op:" + e["op"], 0) + 1
        for role, tname, msg, fn in res.sched.task_errors:
            f["taskerr:%s:%s@%s" % (role, tname, fn)] = 1
        for w in res.run.warnings:
            f["warn:" + w[2][:40]] = 1
        return f


PROP = C01()
