"""Seeded baton scheduler, virtual clock and a small POSIX-like kernel model.

Tasks are real Python threads; exactly one holds the baton.  Every simulated
operation calls ``Sched.yield_`` first, where the scheduler (driven by one
seeded PRNG, or by a recorded decision list in replay mode) decides who runs
next, whether a timer fires early, and whether a fault is injected.
"""
import _thread
import collections
import errno
import random
import sys
import traceback
import zlib

REAL_LOCK = _thread.allocate_lock
REAL_START = _thread.start_new_thread
REAL_GET_IDENT = _thread.get_ident

RUNNABLE, BLOCKED, DONE = "R", "B", "D"

FD_BASE = 1000
PIPE_BUF = 4096
PIPE_CAP = 65536

SIGINT, SIGKILL, SIGSEGV, SIGTERM = 2, 9, 11, 15


class SimKilled(BaseException):
    """Unwinds a task whose simulated process is gone (or at tear-down)."""


class ReplayDivergence(Exception):
    pass


class HarnessError(Exception):
    pass


# ---------------------------------------------------------------- decisions
class Decisions:
    """The single source of nondeterminism of a run.

    record mode: draws from ``random.Random(seed)`` and logs every decision.
    replay mode: reads the logged list back.  ``None`` entries and a list that
    is exhausted mean "default" (keep running the current task if it is
    enabled, otherwise the enabled task with the lowest tid; never fire a
    timer early; never pre-empt on a line event).
    """

    def __init__(self, seed, replay=None, lenient=False):
        self.seed = seed
        self.rng = random.Random(seed)
        self.log = []
        self.replay = replay
        self.pos = 0
        self.lenient = lenient
        self.diverged = 0
        self.divergence = None

    def _next(self):
        if self.pos < len(self.replay):
            v = self.replay[self.pos]
        else:
            v = None
        self.pos += 1
        return v

    def pick(self, options, weights, default):
        """options: list of hashable ids; returns the chosen one."""
        if self.replay is None:
            tot = sum(weights)
            x = self.rng.random() * tot
            acc = 0.0
            choice = options[-1]
            for o, w in zip(options, weights):
                acc += w
                if x < acc:
                    choice = o
                    break
        else:
            v = self._next()
            if v is None:
                choice = default
            elif v in options:
                choice = v
            elif self.lenient:
                self.diverged += 1
                choice = default
            else:
                if self.divergence is None:
                    self.divergence = f"decision {self.pos - 1}: {v!r} not in {options!r}"
                choice = default
        self.log.append(choice)
        return choice

    def gap(self, q):
        """number of traced line events until the next pre-emption point."""
        if self.replay is None:
            if q <= 0:
                g = 1 << 60
            else:
                g = 1
                r = self.rng.random
                while r() >= q and g < 100000:
                    g += 1
        else:
            v = self._next()
            if isinstance(v, list) and v and v[0] == "g":
                g = v[1]
            elif v is None:
                g = 1 << 60
            elif self.lenient:
                self.diverged += 1
                g = 1 << 60
            else:
                if self.divergence is None:
                    self.divergence = f"decision {self.pos - 1}: expected gap, got {v!r}"
                g = 1 << 60
        self.log.append(["g", g] if g < (1 << 60) else None)
        return g


# ---------------------------------------------------------------- tasks
class Task:
    __slots__ = ("sched", "tid", "proc", "name", "role", "baton", "state", "pred",
                 "deadline", "timed_out", "killed", "ident", "daemon", "what",
                 "unwound", "is_py_thread", "opsig", "nops", "sigmask", "exc",
                 "line_gap", "kills_seen", "api", "wobj", "prio", "_starved", "born_step")

    def __init__(self, sched, proc, name):
        self.sched = sched
        self.tid = len(sched.tasks)
        self.proc = proc
        self.name = name
        self.role = name
        self.baton = REAL_LOCK()
        self.baton.acquire()
        self.unwound = REAL_LOCK()
        self.unwound.acquire()
        self.state = RUNNABLE
        self.pred = None
        self.deadline = None
        self.timed_out = False
        self.killed = False
        self.ident = None
        self.daemon = False
        self.what = "start"
        self.is_py_thread = False
        self.opsig = 0
        self.nops = 0
        self.sigmask = set()
        self.exc = None
        self.line_gap = 1 << 60
        self.kills_seen = 0
        self.api = None
        self.wobj = None
        self.prio = 0.0
        self._starved = 0
        self.born_step = sched.steps

    def __repr__(self):
        return f"<T{self.tid} {self.role} p{self.proc.pid} {self.state} {self.what}>"


class Sched:
    """knobs: stick, p_time, J (starvation bound), bias {role: weight}, max_steps."""

    POLL_N = 200
    SPIN_N = 20000      # scheduler steps at one virtual instant: a task spins without ever blocking

    def __init__(self, decisions, knobs=None):
        k = dict(stick=0.5, p_time=0.05, J=0.05, bias={}, max_steps=200000, line_q=0.0, pct=0, pct_at=None)
        k.update(knobs or {})
        self.knobs = k
        # PCT (probabilistic concurrency testing): strict random priorities with `pct` priority-change points
        self.pct_rng = random.Random((decisions.seed * 2654435761 + 97) & 0xFFFFFFFF)   # same in record and replay
        self.pct_points = sorted(self.pct_rng.randrange(1, 1500) for _ in range(k["pct"])) if k["pct"] else []
        self.dec = decisions
        self.now = 0.0
        self.tasks = []
        self.live = []
        self.current = None
        self.steps = 0
        self.by_ident = {}
        self.teardown = False
        self.done_lock = REAL_LOCK()
        self.done_lock.acquire()
        self.outcome = None
        self.snapshot = None
        self.on_task_start = None
        self.on_task_end = None
        self.on_switch = None        # called with the task about to run
        self.on_op = None            # fault hook: (task, what) before every op
        self.on_step = None          # monitor hook, after every pick
        self.kernel = None
        self.switches = 0
        self.preempt_switches = 0
        self.timer_fires_early = 0
        self.timer_jumps = 0
        self.fast_forwards = 0
        self.schedsig = 0
        self._jumpsigs = collections.deque(maxlen=16)
        self._same_jumps = 0
        self.leaked_threads = 0
        self.last_advance_step = 0
        self.spinning = None
        self._streak_task = None
        self._streak = 0
        self.task_errors = []
        self.harness_error = None

    # -- identity
    def cur(self):
        return self.by_ident.get(REAL_GET_IDENT())

    def spawn(self, proc, name, fn, daemon=False, role=None):
        t = Task(self, proc, name)
        t.daemon = daemon
        if role:
            t.role = role
        cur = self.cur()
        if cur is not None:
            t.sigmask = set(cur.sigmask)
        if self.knobs["pct"] or self.knobs["pct_at"] or self.knobs.get("line_at"):
            t.prio = 1.0 + self.pct_rng.random()
            at = self.knobs["pct_at"]
            if at and t.role == at["role"] and not getattr(self, "_pct_at_task", None):
                t.prio = 10.0                 # runs whenever it can ... until its k-th operation
                self._pct_at_task = t
        self.tasks.append(t)
        self.live.append(t)
        proc.tasks.append(t)

        box = [fn]
        del fn

        def runner():
            t.ident = REAL_GET_IDENT()
            t.baton.acquire()
            self.by_ident[t.ident] = t
            f = box.pop()       # the only reference to the task body: dropped before the baton is handed over
            try:
                if self.on_task_start is not None and not self.teardown:
                    self.on_task_start(t)
                if t.killed or self.teardown:
                    raise SimKilled()
                f()
            except SimKilled:
                pass
            except SystemExit:
                pass  # thread-level SystemExit is ignored by CPython
            except BaseException as e:  # noqa
                if not self.teardown and not t.killed:
                    t.exc = e
                    self.task_errors.append((t.role, type(e).__name__, str(e)[:200],
                                             _innermost_repo_func(e.__traceback__)))
            finally:
                sys.settrace(None)
                f = None
                t.state = DONE
                self.by_ident.pop(t.ident, None)
                try:
                    if self.on_task_end is not None:
                        self.on_task_end(t)
                except BaseException:
                    pass
                if self.teardown:
                    t.unwound.release()
                else:
                    try:
                        proc.task_done(t)
                    except SimKilled:
                        pass
                    except BaseException as e:  # noqa
                        self.harness_error = "task_done: %r" % (e,)
                    t.unwound.release()
                    self._switch_from_done()

        REAL_START(runner, ())
        return t

    # -- choosing
    def _enabled(self):
        en = []
        timed = []
        now = self.now
        live = self.live
        if len(live) > 8 and any(t.state == DONE for t in live):
            live[:] = [t for t in live if t.state != DONE]
        for t in live:
            st = t.state
            if st == RUNNABLE:
                en.append(t)
            elif st == BLOCKED:
                if t.killed:
                    en.append(t)
                elif t.pred is not None and t.pred():
                    en.append(t)
                elif t.deadline is not None:
                    if t.deadline <= now:
                        t.timed_out = True
                        en.append(t)
                    else:
                        timed.append(t)
        return en, timed

    def _pick(self, cur):
        while True:
            self.steps += 1
            if self.steps > self.knobs["max_steps"]:
                return self._finish("step_cap")
            if self.harness_error:
                return self._finish("harness_error")
            if self.steps - self.last_advance_step > self.SPIN_N:
                busy = max(self.live, key=lambda t: t.nops - getattr(t, "_nops_mark", 0), default=None) if False else None
                self.spinning = [t.tid for t in self.live if t.state == RUNNABLE]
                return self._finish("livelock")
            en, timed = self._enabled()
            for t in en:
                if t.killed:      # unwinding has no semantics: do it first
                    return t
            if not en:
                if not timed:
                    return self._finish("deadlock")
                if not self._timer_jump(timed):
                    return self._finish("livelock")
                continue
            options = [t.tid for t in en]
            kn = self.knobs
            bias = kn["bias"]
            weights = [bias.get(t.role, 1.0) for t in en]
            if kn["pct"] or kn["pct_at"] or kn.get("line_at"):
                at = kn["pct_at"]
                if at and cur is not None and cur is getattr(self, "_pct_at_task", None) and cur.nops >= at["op"] and cur.prio > 0:
                    cur.prio = -1e9           # single pre-emption point: everybody else runs to quiescence first
                while self.pct_points and self.steps >= self.pct_points[0]:
                    self.pct_points.pop(0)
                    if cur is not None:
                        cur.prio = -float(len(self.pct_points)) - self.steps * 1e-9
                top = max(en, key=lambda t: t.prio)
                # fairness: strict priorities starve everybody behind a task that spins without blocking
                # (e.g. a worker with timeout=0 retrying its non-blocking lock): demote after a long streak,
                # and give a deliberately delayed thread its turn back after a while
                if top is self._streak_task:
                    self._streak += 1
                    if self._streak > 150 and len(en) > 1:
                        top.prio = min(t.prio for t in en if t.prio > -1e8) - 1e-3
                        self._streak = 0
                        top = max(en, key=lambda t: t.prio)
                else:
                    self._streak_task, self._streak = top, 0
                for t in en:
                    if t.prio <= -1e8:
                        t._starved = getattr(t, "_starved", 0) + 1
                        if t._starved > 3000:
                            t.prio = 1.0
                if top.prio <= -1e8:
                    top.prio = 1.0 + 1e-6 * top.tid     # the delay is over: it was its turn only because nobody else could run
                weights = [1.0 if t is top else 1e-6 for t in en]
                default = top.tid
            elif cur is not None and cur.state != DONE and cur in en:
                default = cur.tid
                st = kn["stick"]
                if len(en) > 1 and st > 0:
                    i = en.index(cur)
                    others = sum(weights) - weights[i]
                    weights[i] = others * st / max(1e-9, 1.0 - st) if st < 1 else 1e9
            else:
                default = options[0]
            if timed and kn["p_time"] > 0:
                d = min(t.deadline for t in timed)
                if d - self.now <= kn["J"]:
                    options.append("T")
                    weights.append(sum(weights) * kn["p_time"])
            c = self.dec.pick(options, weights, default)
            if self.dec.divergence is not None:
                self.harness_error = "replay divergence: " + self.dec.divergence
                return self._finish("replay_divergence")
            if c == "T":
                self.timer_fires_early += 1
                # other tasks are enabled and may be progressing: this jump is no evidence of a livelock
                self._timer_jump(timed, early=True)
                continue
            nxt = self.tasks[c]
            if nxt is not cur:
                self.switches += 1
                if cur is not None and cur.state == RUNNABLE:
                    self.preempt_switches += 1
                self.schedsig = zlib.crc32(b"%d:%s;" % (nxt.tid, nxt.what.encode()), self.schedsig)
            if self.on_step is not None:
                self.on_step(self, nxt)
            return nxt

    def _timer_jump(self, timed, early=False):
        """No task is enabled: advance the clock.  Returns False on livelock."""
        d = min(t.deadline for t in timed)
        if early:
            self._jumpsigs.clear()
            self._same_jumps = 0
            if d > self.now:
                self.last_advance_step = self.steps
            self.now = max(self.now, d)
            self.timer_jumps += 1
            return True
        woken = tuple(t.tid for t in timed if t.deadline <= d)
        sig = (woken, tuple(self.tasks[i].opsig for i in woken), self.kernel.digest())
        if sig in self._jumpsigs:
            self._same_jumps += 1
        else:
            self._same_jumps = 0
        self._jumpsigs.append(sig)
        self.timer_jumps += 1
        if self._same_jumps >= self.POLL_N:
            pollers = set()
            for s in self._jumpsigs:
                pollers.update(s[0])
            others = [t.deadline for t in timed if t.tid not in pollers]
            if not others:
                self.livelock_pollers = sorted(pollers)
                return False
            tgt = min(others) - 1e-4
            if tgt > d:
                d = tgt
                self.fast_forwards += 1
            self._same_jumps = 0
            self._jumpsigs.clear()
        if d > self.now:
            self.last_advance_step = self.steps
        self.now = max(self.now, d)
        for i in woken:
            self.tasks[i].opsig = 0
        return True

    def _finish(self, outcome):
        self.outcome = outcome
        self.snapshot = self._snapshot()
        self.teardown = True
        return None

    def _snapshot(self):
        frames = sys._current_frames()
        out = []
        for t in self.tasks:
            if t.state == DONE:
                continue
            fr = frames.get(t.ident)
            w = t.wobj
            out.append(dict(tid=t.tid, role=t.role, pid=t.proc.pid, state=t.state, born_step=t.born_step,
                            what=t.what, alive=t.proc.alive, api=t.api,
                            waits_for=(dict(sem=w.name, last_acquirer=w.last_acq,
                                            acquirer_alive=(self.kernel.procs[w.last_acq].alive
                                                            if w.last_acq in self.kernel.procs else None))
                                       if isinstance(w, Sem) and t.what == "sem" else None),
                            where=_stack_funcs(fr), deadline=t.deadline))
        return out

    def _resume(self, nxt):
        nxt.state = RUNNABLE
        nxt.pred = None
        nxt.deadline = None
        self.current = nxt
        if self.on_switch is not None:
            self.on_switch(nxt)
        nxt.baton.release()

    def switch(self, cur):
        nxt = self._pick(cur)
        if nxt is None:
            self.done_lock.release()
            cur.baton.acquire()      # parked until tear-down
            raise SimKilled()
        if nxt is cur:
            cur.state = RUNNABLE
            cur.pred = None
            cur.deadline = None
            return
        self._resume(nxt)
        cur.baton.acquire()
        if cur.killed or self.teardown:
            cur.kills_seen += 1
            raise SimKilled()

    def _switch_from_done(self):
        if all(t.state == DONE for t in self.live):
            self.outcome = "complete"
            self.teardown = True
            self.done_lock.release()
            return
        nxt = self._pick(None)
        if nxt is None:
            self.done_lock.release()
            return
        self._resume(nxt)

    # -- api used by simulated operations
    def yield_(self, what):
        cur = self.cur()
        if cur is None:
            return
        if self.teardown or cur.killed:
            cur.kills_seen += 1
            if cur.kills_seen > 5000:
                self.harness_error = "task does not unwind: %r" % (cur,)
            raise SimKilled()
        cur.what = what
        cur.nops += 1
        cur.proc.nops += 1
        cur.opsig = zlib.crc32(what.encode(), cur.opsig)
        if self.on_op is not None:
            self.on_op(cur, what)
            if cur.killed:
                raise SimKilled()
        self.switch(cur)

    def block_until(self, pred, timeout=None, what="block"):
        cur = self.cur()
        if cur is None:
            if pred() or self.teardown:
                return True
            raise HarnessError("blocking sim op outside a sim task: " + what)
        if self.teardown or cur.killed:
            cur.kills_seen += 1
            raise SimKilled()
        cur.what = what
        cur.state = BLOCKED
        cur.pred = pred
        cur.timed_out = False
        cur.deadline = None if timeout is None else self.now + max(0.0, timeout)
        self.switch(cur)
        ok = (not cur.timed_out) or bool(pred())
        cur.timed_out = False
        return ok

    def sleep(self, d):
        self.block_until(_never, d, "sleep")

    # -- driver
    def run(self, root_proc, main_fn):
        t = self.spawn(root_proc, "main", main_fn, role="main")
        root_proc.main_task = t
        self.current = t
        if self.on_switch is not None:
            self.on_switch(t)
        t.baton.release()
        self.done_lock.acquire()
        self.teardown = True
        for t in list(self.tasks):
            if t.state != DONE:
                t.killed = True
                if self.on_switch is not None:
                    try:
                        self.on_switch(t)
                    except BaseException:
                        pass
                t.baton.release()
                if not t.unwound.acquire(True, 10):
                    self.leaked_threads += 1
        return self.outcome


def _never():
    return False


_REPO_MARK = "/loky/"


def _stack_funcs(frame, limit=40):
    """innermost-first list of function names; loky frames are tagged."""
    out = []
    n = 0
    while frame is not None and n < limit:
        co = frame.f_code
        fn = co.co_filename
        if _REPO_MARK in fn and "/simloky/" not in fn:
            out.append("loky:" + co.co_name)
        elif "/simloky/" in fn:
            out.append("sim:" + co.co_name)
        else:
            out.append(co.co_name)
        frame = frame.f_back
        n += 1
    return out


def _innermost_repo_func(tb):
    name = None
    while tb is not None:
        fn = tb.tb_frame.f_code.co_filename
        if _REPO_MARK in fn and "/simloky/" not in fn:
            name = tb.tb_frame.f_code.co_name
        tb = tb.tb_next
    return name


# ---------------------------------------------------------------- kernel
class Pipe:
    __slots__ = ("buf", "cap", "r", "w", "total", "pid", "watch", "origin", "born_step", "n")

    def __init__(self, cap, pid):
        self.buf = bytearray()
        self.cap = cap
        self.r = 0
        self.w = 0
        self.total = 0
        self.pid = pid
        self.watch = False
        self.origin = "?"
        self.born_step = 0
        self.n = 0


class OpenFile:
    __slots__ = ("pipe", "mode", "refs")

    def __init__(self, pipe, mode):
        self.pipe = pipe
        self.mode = mode
        self.refs = 0

    def incref(self):
        self.refs += 1
        if self.refs == 1:
            if self.mode == "r":
                self.pipe.r += 1
            else:
                self.pipe.w += 1

    def decref(self):
        self.refs -= 1
        if self.refs == 0:
            if self.mode == "r":
                self.pipe.r -= 1
            else:
                self.pipe.w -= 1


class Sem:
    __slots__ = ("value", "linked", "name", "creator", "last_acq")

    def __init__(self, value, name, creator):
        self.value = value
        self.linked = True
        self.name = name
        self.creator = creator
        self.last_acq = None


class Proc:
    def __init__(self, kernel, pid, ppid, env, argv):
        self.k = kernel
        self.pid = pid
        self.ppid = ppid
        self.orig_ppid = ppid
        self.env = env
        self.argv = argv
        self.fds = {}
        self.inh = {}
        self.tasks = []
        self.alive = True
        self.status = None
        self.reaped = False
        self.sigdisp = {}
        self.pending = set()
        self.modules = {}
        self.overlay = {}
        self.atexits = []
        self.thr_atexits = []
        self.main_task = None
        self.cwd = "/simcwd"
        self.nops = 0
        self.role = "proc"
        self.exec_fds = []
        self.exec_env = {}
        self.exiting = False
        self.rss = 1000
        self.info = {}
        self.birth = 0.0
        self.death = None
        self.death_step = None
        self.used_fds = set()

    def task_done(self, t):
        pass

    def alloc_fd(self, of, inheritable=False):
        fd = FD_BASE
        fds = self.fds
        while fd in fds:
            fd += 1
        fds[fd] = of
        self.inh[fd] = inheritable
        of.incref()
        return fd


class Kernel:
    def __init__(self, sched, pipe_cap=PIPE_CAP):
        self.s = sched
        sched.kernel = self
        self.procs = {}
        self.next_pid = 100
        self.sems = {}
        self.all_sems = []
        self.log = []
        self.pipe_cap = pipe_cap
        self.fault_counts = collections.Counter()
        self.probes = collections.Counter()
        self.pipe_log = []
        self.cut_tasks = []
        self.kills = []          # (killer pid, target pid, signal) of every kill() system call

    def digest(self):
        h = 0
        for p in self.procs.values():
            h = zlib.crc32(b"%d%d%d" % (p.pid, p.alive, p.reaped), h)
            if p.alive:
                for fd, of in p.fds.items():
                    pp = of.pipe
                    h = zlib.crc32(b"%d:%d:%d" % (fd, len(pp.buf), pp.total), h)
        for s in self.all_sems:
            h = zlib.crc32(b"%d" % s.value, h)
        for t in self.s.tasks:
            h = zlib.crc32(t.state.encode(), h)
        return h

    def new_proc(self, ppid, env, argv):
        pid = self.next_pid
        self.next_pid += 1
        p = Proc(self, pid, ppid, dict(env), list(argv))
        p.birth = self.s.now
        p.exec_step = self.s.steps
        self.procs[pid] = p
        return p

    def cur_proc(self):
        t = self.s.cur()
        return t.proc if t else None

    # ---- fds
    ORIGINS = {"_ThreadWakeup.__init__": "wakeup", "Popen._launch": "launch", "fork_exec": "errpipe",
               "spawnv_passfds": "errpipe", "ResourceTracker.ensure_running": "tracker",
               "_StubMpTracker.ensure_running": "mp-tracker", "Interp.op_open_fds": "user",
               "SimpleQueue.__init__": "result-queue", "Queue.__init__": "call-queue"}

    def pipe(self, proc):
        pp = Pipe(self.pipe_cap, proc.pid)
        f = sys._getframe(1)
        for _ in range(14):
            if f is None:
                break
            o = self.ORIGINS.get(f.f_code.co_qualname)
            if o is not None:
                pp.origin = o
                break
            f = f.f_back
        pp.born_step = self.s.steps
        self.npipes = getattr(self, "npipes", 0) + 1
        pp.n = self.npipes
        r = proc.alloc_fd(OpenFile(pp, "r"))
        w = proc.alloc_fd(OpenFile(pp, "w"))
        return r, w

    def close(self, proc, fd):
        of = proc.fds.pop(fd, None)
        if of is None:
            if not proc.alive or self.s.teardown:
                return
            raise OSError(errno.EBADF, "Bad sim fd %r in p%d" % (fd, proc.pid))
        proc.used_fds.add(fd)
        proc.inh.pop(fd, None)
        of.decref()

    def _of(self, proc, fd):
        proc.used_fds.add(fd)
        try:
            return proc.fds[fd]
        except KeyError:
            raise OSError(errno.EBADF, "Bad sim fd %r in p%d" % (fd, proc.pid)) from None

    def read(self, proc, fd, n):
        s = self.s
        s.yield_("read")
        of = self._of(proc, fd)
        pp = of.pipe
        if not pp.buf and pp.w > 0:
            s.block_until(lambda: pp.buf or pp.w == 0, None, "read")
        data = bytes(pp.buf[:n])
        del pp.buf[:n]
        return data

    def readable(self, proc, fd):
        pp = self._of(proc, fd).pipe
        return bool(pp.buf) or pp.w == 0

    def write(self, proc, fd, data):
        """Blocking pipe write: atomic up to PIPE_BUF, chunked above; returns
        only when everything is written (as write(2) on a blocking pipe)."""
        s = self.s
        data = bytes(data)
        total = len(data)
        off = 0
        first = True
        while True:
            s.yield_("write" if first else "write+")
            first = False
            of = self._of(proc, fd)
            pp = of.pipe
            if pp.r == 0:
                raise BrokenPipeError(errno.EPIPE, "Broken pipe")
            need = total if total <= PIPE_BUF else 1
            if pp.cap - len(pp.buf) < need:
                s.block_until(lambda: pp.r == 0 or pp.cap - len(pp.buf) >= need, None, "write")
                if pp.r == 0:
                    raise BrokenPipeError(errno.EPIPE, "Broken pipe")
            n = min(total - off, pp.cap - len(pp.buf))
            pp.buf += data[off:off + n]
            pp.total += n
            if pp.watch:
                self.pipe_log.append((proc.pid, data[off:off + n]))
            off += n
            if off >= total:
                return total
            self.probes["partial_write"] += 1

    # ---- processes
    def exit_proc(self, proc, status):
        if not proc.alive:
            return
        proc.alive = False
        proc.status = status
        proc.death = self.s.now
        proc.death_step = self.s.steps
        for fd in list(proc.fds):
            of = proc.fds.pop(fd)
            of.decref()
        for t in proc.tasks:
            if t.state != DONE:
                if not t.killed and (t.state == RUNNABLE or (t.state == BLOCKED and t.what in ("lock", "sem", "write", "read"))) \
                        and t is not self.s.cur():
                    self.cut_tasks.append((proc.pid, t.role, t.state, t.what))     # cut in the middle of something
                t.killed = True
        for c in self.procs.values():
            if c.ppid == proc.pid:
                c.ppid = 1
                if not c.alive:
                    c.reaped = True
        if proc.ppid == 1:
            proc.reaped = True
        self.log.append(("exit", proc.pid, status, round(self.s.now, 6)))

    def deliver(self, p, sig):
        """process-directed signal; returns True if it terminated p."""
        if not p.alive:
            return False
        if sig != SIGKILL:
            if p.sigdisp.get(sig) == "ign":
                self.log.append(("sig-ignored", p.pid, sig))
                return False
            if p.tasks and all(sig in t.sigmask for t in p.tasks if t.state != DONE):
                p.pending.add(sig)
                self.log.append(("sig-pending", p.pid, sig))
                return False
        self.exit_proc(p, ("sig", sig))
        return True

    def sigmask_changed(self, p):
        for sig in sorted(p.pending):
            if any(sig not in t.sigmask for t in p.tasks if t.state != DONE):
                p.pending.discard(sig)
                self.deliver(p, sig)

    def kill(self, pid, sig):
        self.s.yield_("kill")
        p = self.procs.get(pid)
        if p is None or p.reaped:
            raise ProcessLookupError(errno.ESRCH, "No such process")
        cur0 = self.s.cur()
        self.kills.append((cur0.proc.pid if cur0 is not None else 0, pid, sig))
        self.deliver(p, sig)
        cur = self.s.cur()
        if cur is not None and cur.proc is p and not p.alive:
            raise SimKilled()

    def waitpid(self, proc, pid, flags):
        self.s.yield_("waitpid")
        c = self.procs.get(pid)
        if c is None or c.ppid != proc.pid or c.reaped:
            raise ChildProcessError(errno.ECHILD, "No child processes")
        if c.alive:
            if flags & 1:  # WNOHANG
                return 0, 0
            self.s.block_until(lambda: not c.alive, None, "waitpid")
        c.reaped = True
        kind, v = c.status
        self.log.append(("reap", c.pid, proc.pid))
        return pid, ((v & 0xFF) << 8) if kind == "exit" else v

    def children(self, pid, recursive=False, alive_only=True):
        out = []
        for c in self.procs.values():
            if c.ppid == pid and (c.alive or not alive_only):
                out.append(c)
                if recursive:
                    out.extend(self.children(c.pid, True, alive_only))
        return out

    def descendants_by_origin(self, pid):
        """every process whose original ancestry goes through pid."""
        out = []
        for c in self.procs.values():
            if c.orig_ppid == pid:
                out.append(c)
                out.extend(self.descendants_by_origin(c.pid))
        return out
