"""Parallel seeded search, known findings, minimisation, evidence."""
import argparse
import collections
import hashlib
import json
import os
import re
import shutil
import subprocess
import sys
import time

HERE = os.path.dirname(os.path.abspath(__file__))
VERIF = os.path.dirname(HERE)
PY = sys.executable
WORKER = os.path.join(HERE, "_worker_main.py")
CHUNK = 25
REAL_STUB = {
    "real_code": [
        "loky/process_executor.py", "loky/reusable_executor.py", "loky/_base.py", "loky/initializers.py",
        "loky/backend/queues.py", "loky/backend/synchronize.py", "loky/backend/resource_tracker.py (client and main())",
        "loky/backend/spawn.py", "loky/backend/popen_loky_posix.py (incl. its __main__ block)",
        "loky/backend/fork_exec.py", "loky/backend/process.py", "loky/backend/context.py",
        "loky/backend/reduction.py", "loky/backend/_posix_reduction.py", "loky/backend/utils.py",
        "stdlib pure Python: multiprocessing.queues/connection/process/util/context, threading.Condition/"
        "Event/Thread/_RLock, queue.Queue, concurrent.futures.Future/Executor.map, pickle, cloudpickle",
    ],
    "stubs": [
        "kernel model: pipes, fd tables, exec, process table, waitpid, signals, named semaphores, virtual clock",
        "_multiprocessing.SemLock re-implemented from semaphore.c", "multiprocessing.connection.wait",
        "time, psutil, pgrep, atexit, _posixsubprocess.fork_exec", "threading lowest layer (lock, thread start, sentinel)",
        "interpreter finalisation order, garbage-collection timing", "stdlib multiprocessing.resource_tracker (fd+pid only)",
        "runpy (recorded, not executed), faulthandler",
    ],
}


def load_known():
    p = os.path.join(VERIF, "known_findings.json")
    if not os.path.exists(p):
        return []
    return json.load(open(p)).get("findings", [])


def match_known(known, pid, signature):
    for k in known:
        props = k["property"] if isinstance(k["property"], list) else [k["property"]]
        if (pid in props or "*" in props) and re.search(k["signature_regex"], signature):
            return k
    return None


class Pool:
    """runs worker chunks as subprocesses; tolerant of crashes and hangs."""

    def __init__(self, pid, tier, base, jobs, workdir, stall=200):
        self.pid, self.tier, self.base, self.jobs, self.workdir = pid, tier, base, jobs, workdir
        self.active = {}
        self.stall = stall
        self.n = 0

    def launch(self, start, count, hashseed="0", digest=False, tag=""):
        self.n += 1
        out = os.path.join(self.workdir, "chunk_%s%d_%d.jsonl" % (tag, start, self.n))
        log = open(os.path.join(self.workdir, "chunk_%s%d_%d.log" % (tag, start, self.n)), "wb")
        env = dict(os.environ, PYTHONHASHSEED=hashseed, PYTHONDONTWRITEBYTECODE="1")
        cmd = [PY, "-u", WORKER, self.pid, self.tier, str(self.base), str(start), str(count), out]
        if digest:
            cmd.append("digest")
        p = subprocess.Popen(cmd, stdout=log, stderr=log, env=env, cwd=VERIF)
        log.close()
        self.active[p.pid] = dict(p=p, out=out, start=start, count=count, t0=time.time(),
                                  last=time.time(), size=0, hashseed=hashseed, digest=digest, tag=tag,
                                  log=log.name)

    def poll(self):
        """returns list of finished jobs: (job, lines)"""
        done = []
        for pid_, j in list(self.active.items()):
            rc = j["p"].poll()
            try:
                sz = os.path.getsize(j["out"])
            except OSError:
                sz = 0
            if sz != j["size"]:
                j["size"] = sz
                j["last"] = time.time()
            if rc is None and time.time() - j["last"] > self.stall:
                j["p"].kill()
                j["p"].wait()
                rc = -9
                j["stalled"] = True
            if rc is not None:
                del self.active[pid_]
                lines = []
                if os.path.exists(j["out"]):
                    for ln in open(j["out"]):
                        try:
                            lines.append(json.loads(ln))
                        except ValueError:
                            pass
                j["rc"] = rc
                done.append((j, lines))
        return done


def search(prop, tier, runs, jobs, wall_cap, base):
    from . import engine, harness
    t0 = time.time()
    workdir = os.path.join(VERIF, ".work", "%s_%d" % (prop.id, os.getpid()))
    shutil.rmtree(workdir, ignore_errors=True)
    os.makedirs(workdir)
    pool = Pool(prop.id, tier, base, jobs, workdir)
    agg = dict(evaluations=0, outcomes=collections.Counter(), faults=collections.Counter(),
               probes=collections.Counter(), features=collections.Counter(), steps=0, sim_s=0.0,
               sigs=set(), states=set(), switches=0, preempt=0, early=0, line=0, harness=[],
               wall_runs=0.0, samples=[], viols={}, nontrivial=0, procs=0)
    digests = {}
    ndet = min(runs, CHUNK if tier == "quick" else 3 * CHUNK)
    det_mismatch = []
    pending = []
    i = 0
    while i < runs:
        c = min(CHUNK, runs - i)
        pending.append((i, c, "0", True if i < ndet else False, ""))
        i += c
    # determinism re-runs (fresh interpreter, other hash seed) of the first chunk(s)
    j = 0
    while j < ndet:
        c = min(CHUNK, ndet - j)
        pending.insert(1, (j, c, "77", True, "det"))
        j += c
    retry = collections.Counter()

    def handle(job, lines):
        started = None
        seen = set()
        for d in lines:
            if "start" in d:
                started = d["start"]
                continue
            if "done" in d or "recycle" in d:
                continue
            seen.add(d["i"])
            if job["tag"] == "det":
                a = digests.get(d["i"])
                if a is None:
                    digests[d["i"]] = ("det", d.get("digest"))
                elif a[1] != d.get("digest"):
                    det_mismatch.append((d["i"], d["seed"]))
                continue
            if job["digest"]:
                a = digests.get(d["i"])
                if a is None:
                    digests[d["i"]] = ("main", d.get("digest"))
                elif a[1] != d.get("digest"):
                    det_mismatch.append((d["i"], d["seed"]))
            absorb(d)
        # unfinished part of the chunk (crash, stall, recycle)
        rest = [x for x in range(job["start"], job["start"] + job["count"]) if x not in seen]
        if rest:
            if job["rc"] not in (0, 3):
                bad = started if started is not None and started not in seen else rest[0]
                retry[bad] += 1
                if retry[bad] >= 1:
                    if job["tag"] != "det":
                        agg["harness"].append(dict(i=bad, seed=engine.run_seed(base, bad),
                                                   error="worker died rc=%s%s; see %s" % (
                                                       job["rc"], " (stalled)" if job.get("stalled") else "",
                                                       job["log"])))
                        agg["evaluations"] += 1
                        agg["outcomes"]["harness_crash"] += 1
                    rest = [x for x in rest if x != bad]
            # re-queue contiguous remainder
            if rest:
                s = rest[0]
                prev = s
                for x in rest[1:] + [None]:
                    if x is None or x != prev + 1:
                        pending.insert(0, (s, prev - s + 1, job["hashseed"], job["digest"], job["tag"]))
                        s = x
                    prev = x if x is not None else prev

    def absorb(d):
        agg["evaluations"] += 1
        agg["outcomes"][d["outcome"]] += 1
        agg["steps"] += d.get("steps", 0)
        agg["sim_s"] += d.get("sim_s", 0)
        agg["wall_runs"] += d.get("wall", 0)
        agg["switches"] += d.get("switches", 0)
        agg["preempt"] += d.get("preempt", 0)
        agg["early"] += d.get("early", 0)
        agg["line"] += d.get("line", 0)
        agg["procs"] += d.get("procs", 0)
        for k, v in (d.get("faults") or {}).items():
            agg["faults"][k] += v
        for k, v in (d.get("probes") or {}).items():
            agg["probes"][k] += v
        for k, v in (d.get("features") or {}).items():
            agg["features"][k] += v
        if d.get("nontrivial"):
            agg["nontrivial"] += 1
            agg["sigs"].add(d.get("schedsig"))
        for s in d.get("states") or []:
            agg["states"].add(s)
        if d.get("harness_error"):
            agg["harness"].append(dict(i=d["i"], seed=d["seed"], error=str(d["harness_error"])[:400]))
        if d.get("spec") is not None and not d.get("viol") and len(agg["samples"]) < 3:
            agg["samples"].append(d["spec"])
        for v in d.get("viol") or []:
            ent = agg["viols"].setdefault(v["signature"], dict(count=0, first=None, message=v["message"]))
            ent["count"] += 1
            if ent["first"] is None or len(d["decisions"]) < len(ent["first"]["decisions"]):
                ent["first"] = dict(spec=d["spec"], decisions=d["decisions"], seed=d["seed"], i=d["i"])

    capped = False
    while pending or pool.active:
        while pending and len(pool.active) < jobs:
            if time.time() - t0 > wall_cap:
                capped = True
                pending = [p for p in pending if p[4] == "det"]
                if not pending:
                    break
            s, c, hs, dg, tag = pending.pop(0)
            pool.launch(s, c, hs, dg, tag)
        for job, lines in pool.poll():
            handle(job, lines)
        time.sleep(0.05)
    agg["capped"] = capped
    agg["det_checked"] = sum(1 for v in digests.values() if True)
    agg["det_mismatch"] = det_mismatch
    agg["workdir"] = workdir
    agg["wall"] = time.time() - t0
    return agg


def minimise_cli(inp, outp):
    from . import engine
    doc = json.load(open(inp))
    prop = engine.load_prop(doc["property"])
    log = {}
    r = engine.minimise(prop, doc["spec"], doc["decisions"], doc["signature"],
                        budget_s=doc.get("budget", 60), log=log)
    if r is None:
        json.dump(dict(ok=False), open(outp, "w"))
        return
    spec, dec, v = r
    engine.write_replay(outp, prop, spec, dec, v, extra=dict(minimisation=log, ok=True))


def report_violation(prop, signature, ent, workdir, do_min=True):
    """minimise in a subprocess, validate the replay in a fresh interpreter,
    return the replay path (falls back to the unminimised run)."""
    from . import engine
    h = hashlib.sha1(signature.encode()).hexdigest()[:10]
    rdir = os.path.join(VERIF, "replays", prop.id)
    os.makedirs(rdir, exist_ok=True)
    final = os.path.join(rdir, "%s.json" % h)
    first = ent["first"]
    inp = os.path.join(workdir, "min_in_%s.json" % h)
    outp = os.path.join(workdir, "min_out_%s.json" % h)
    json.dump(dict(property=prop.id, spec=first["spec"], decisions=first["decisions"],
                   signature=signature, budget=60), open(inp, "w"))
    ok = False
    try:
        if not do_min:
            raise RuntimeError("minimisation skipped")
        env = dict(os.environ, PYTHONHASHSEED="0")
        subprocess.run([PY, "-c", "import sys; sys.path.insert(0, %r); from simloky import driver; "
                        "driver.minimise_cli(%r, %r)" % (VERIF, inp, outp)],
                       timeout=240, env=env, cwd=VERIF, stdout=subprocess.DEVNULL, stderr=subprocess.DEVNULL)
        if os.path.exists(outp) and json.load(open(outp)).get("ok"):
            shutil.copy(outp, final)
            ok = validate_replay(prop, final, signature)
    except Exception:
        ok = False
    if not ok:
        engine.write_replay(final, prop, first["spec"], first["decisions"],
                            dict(signature=signature, message=ent["message"]),
                            extra=dict(minimisation="failed or skipped: unminimised run"))
        ok = validate_replay(prop, final, signature)
    return final, ok


def validate_replay(prop, path, signature):
    env = dict(os.environ, PYTHONHASHSEED="0")
    try:
        r = subprocess.run([PY, os.path.join(VERIF, "simloky", "_check_main.py"), prop.id, "--replay", path],
                           env=env, cwd=VERIF, capture_output=True, text=True, timeout=300)
    except subprocess.TimeoutExpired:
        return False
    return r.returncode == 1 and ("VIOLATION property=%s" % prop.id) in r.stdout


def do_replay(prop, path):
    from . import engine
    doc, prop2, res, viols = engine.replay(path)
    want = doc["violation"]["signature"]
    if res.harness_error:
        print("REPLAY-ERROR %s" % res.harness_error)
        return 2
    for v in viols:
        if v["signature"] == want:
            print("reproduced: %s" % want)
            print("  %s" % v["message"][:500])
            print("VIOLATION property=%s replay=%s" % (prop.id, path))
            return 1
    print("replay did not reproduce %s (got %s, outcome %s)" % (want, [v["signature"] for v in viols], res.outcome))
    return 2 if doc.get("loky_fingerprint") == __import__("simloky.harness").harness.loky_fingerprint() else 0


def write_evidence(prop, tier, base, agg, nviol, known_hits, extra=None):
    wall = agg["wall"]
    ev = agg["evaluations"]
    if not agg["samples"]:
        from . import engine
        agg["samples"].append(prop.sample(engine.make_spec(prop, engine.run_seed(base, 0), tier)))
    cov = dict(
        evaluations=ev,
        distinct_nontrivial=len(agg["sigs"]),
        rule="each evaluation is one simulated run (generated program + fault plan + seeded schedule); a run is "
             "non-trivial if it injected a fault, took a pre-emptive context switch or fired a timer early; "
             "distinct = distinct CRC of the sequence of (task, operation) at context switches",
        samples=agg["samples"][:3],
        nontrivial_runs=agg["nontrivial"],
        outcomes=dict(agg["outcomes"]),
        runs_per_hour=int(ev / wall * 3600) if wall > 0 else 0,
        seeds_per_hour=int(ev / wall * 3600) if wall > 0 else 0,
        simulated_seconds=round(agg["sim_s"], 3),
        scheduler_steps=agg["steps"],
        context_switches=agg["switches"],
        preemptive_switches=agg["preempt"],
        timers_fired_early=agg["early"],
        line_preemptions=agg["line"],
        simulated_processes=agg["procs"],
        faults_fired=dict(agg["faults"]),
        probes=dict(agg["probes"]),
        features=dict(sorted(agg["features"].items())[:120]),
        abstract_states=len([x for x in agg["states"] if not str(x).startswith(("kp:", "sweep:"))]),
        distinct_kill_points=len([x for x in agg["states"] if str(x).startswith("kp:")]),
        sweep_points=len([x for x in agg["states"] if str(x).startswith("sweep:")]),
        diagnostics=dict(step_cap_runs=agg["outcomes"].get("step_cap", 0), harness_errors=len(agg["harness"])),
        determinism_selfcheck=dict(runs_compared=agg["det_checked"], mismatches=len(agg["det_mismatch"]),
                                   how="same seeds re-run in a fresh interpreter with PYTHONHASHSEED=77; full event digests compared"),
        known_findings_hit=known_hits,
        wall_cap_reached=agg["capped"],
        components=REAL_STUB,
    )
    if extra:
        cov.update(extra)
    doc = dict(property_id=prop.id, tier=tier, seed=base, level=prop.level, coverage=cov,
               assumptions=list(prop.assumptions), wall_s=round(wall, 2), violations=nviol)
    os.makedirs(os.path.join(VERIF, "evidence"), exist_ok=True)
    with open(os.path.join(VERIF, "evidence", "%s.json" % prop.id), "w") as f:
        json.dump(doc, f, indent=1, default=str)


def main(argv=None):
    ap = argparse.ArgumentParser()
    ap.add_argument("prop")
    ap.add_argument("--tier", default=os.environ.get("VERIF_TIER") or "quick")
    ap.add_argument("--replay")
    ap.add_argument("--runs", type=int)
    ap.add_argument("--jobs", type=int, default=min(16, os.cpu_count() or 1))
    ap.add_argument("--cap", type=float)
    ap.add_argument("--keep", action="store_true")
    ap.add_argument("--save-known", help="directory: write one minimised replay per known finding that was hit")
    a = ap.parse_args(argv)
    sys.path.insert(0, VERIF)
    from simloky import engine
    prop = engine.load_prop(a.prop)
    if a.replay:
        return do_replay(prop, a.replay)
    tier = a.tier if a.tier in ("quick", "thorough") else "quick"
    base = int(os.environ.get("VERIF_SEED") or 0)
    runs = a.runs or (prop.quick_runs if tier == "quick" else prop.thorough_runs)
    cap = a.cap or (100 if tier == "quick" else 1500)
    print("check %s tier=%s seed=%d runs<=%d jobs=%d" % (prop.id, tier, base, runs, a.jobs))
    sys.stdout.flush()
    if hasattr(prop, "custom_main"):
        return prop.custom_main(tier, base, runs, a.jobs, cap)
    agg = search(prop, tier, runs, a.jobs, cap, base)
    known = load_known()
    nviol = 0
    known_hits = {}
    rc = 0
    new = []
    for sig, ent in sorted(agg["viols"].items()):
        k = match_known(known, prop.id, sig)
        if k is not None:
            kh = known_hits.setdefault(k["id"], dict(count=0, what=k["what"]))
            kh["count"] += ent["count"]
            if a.save_known and not kh.get("saved"):
                dst = os.path.join(a.save_known, "%s_%s.json" % (k["id"], prop.id))
                if not os.path.exists(dst):
                    path, ok = report_violation(prop, sig, ent, agg["workdir"], do_min=True)
                    if ok:
                        os.makedirs(a.save_known, exist_ok=True)
                        shutil.move(path, dst)
                        kh["saved"] = dst
        else:
            new.append((sig, ent))
    for kid, kh in sorted(known_hits.items()):
        print("KNOWN-FINDING: property=%s %s: %s (seen in %d runs)" % (prop.id, kid, kh["what"], kh["count"]))
    unrepro = 0
    for n, (sig, ent) in enumerate(new):
        nviol += 1
        path, ok = report_violation(prop, sig, ent, agg["workdir"], do_min=(n < 4))
        print("violation signature: %s (%d runs) %s" % (sig, ent["count"], ent["message"][:300]))
        if path is not None and ok:
            print("VIOLATION property=%s replay=%s" % (prop.id, path))
            rc = 1
        else:
            # a violation that does not replay in a fresh interpreter is a defect of the harness (or the tree
            # changed under the run), not evidence against loky: reported apart, exit status 2
            print("HARNESS-ERROR unreproducible violation %s: fresh-interpreter replay of %s did not validate" % (sig, path))
            unrepro += 1
    nerr = len(agg["harness"])
    for h in agg["harness"][:5]:
        print("HARNESS-ERROR run %s seed %s: %s" % (h["i"], h["seed"], h["error"][:300]))
    if agg["det_mismatch"]:
        print("HARNESS-ERROR determinism self-check failed for runs %s" % (agg["det_mismatch"][:10],))
    write_evidence(prop, tier, base, agg, nviol, known_hits)
    print("%s: %d runs in %.1fs (%d/h), outcomes %s, %d distinct non-trivial schedules, faults %s" % (
        prop.id, agg["evaluations"], agg["wall"], int(agg["evaluations"] / max(agg["wall"], 1e-9) * 3600),
        dict(agg["outcomes"]), len(agg["sigs"]), dict(agg["faults"])))
    if not a.keep:
        shutil.rmtree(agg["workdir"], ignore_errors=True)
        try:
            os.rmdir(os.path.join(VERIF, ".work"))
        except OSError:
            pass
    if rc == 0 and (agg["det_mismatch"] or unrepro or nerr > max(2, agg["evaluations"] // 100)):
        rc = 2
    if rc == 0 and agg["evaluations"] == 0:
        rc = 2
    return rc
