"""Run / summarise / minimise / replay single simulated runs of a property."""
import copy
import importlib
import json
import os
import random
import sys
import time

from . import ENGINE_VERSION
from . import harness


def load_prop(pid):
    mod = importlib.import_module("simloky.props." + pid.lower())
    return mod.PROP


def run_seed(base, i):
    return (base * 1000003 + i * 7919 + 12345) & 0x7FFFFFFF


def make_spec(prop, seed, tier):
    rng = random.Random(seed ^ 0x5BD1E995)
    spec = prop.gen(rng, tier)
    spec["seed"] = seed
    return spec


def run_spec(prop, spec, replay=None, lenient=False):
    program = prop.program(spec)
    if getattr(prop, "track_states", False):
        from .props.execfam import exec_state
        inner = program

        def program(run, inner=inner):
            run.state_fn = exec_state
            inner(run)
    res = harness.run_sim(spec, program, replay=replay, lenient=lenient)
    if res.harness_error or res.outcome in ("harness_error", "replay_divergence"):
        return res, []
    viols = prop.check(res)
    return res, viols


def summarize(prop, spec, res, viols, want_sample=False):
    s = res.sched
    k = res.kernel
    d = dict(
        seed=spec["seed"], outcome=res.outcome, steps=s.steps, sim_s=round(s.now, 6),
        wall=round(res.wall, 4), switches=s.switches, preempt=s.preempt_switches,
        early=s.timer_fires_early, jumps=s.timer_jumps, ff=s.fast_forwards,
        line=res.run.line_preempts, schedsig=s.schedsig, procs=len(k.procs),
        faults=dict(k.fault_counts), nfault=len(res.run.fault_log),
        probes=dict(k.probes), nontrivial=bool(prop.nontrivial(res)),
        features=prop.features(res), states=sorted(res.run.states, key=str)[:400],
        harness_error=res.harness_error,
        viol=[dict(signature=v["signature"], message=v["message"][:600]) for v in viols],
    )
    if viols:
        d["spec"] = spec
        d["decisions"] = res.decisions
    elif want_sample:
        d["spec"] = prop.sample(spec)
    return d


# ---------------------------------------------------------------- minimisation
def _same(viols, signature):
    for v in viols:
        if v["signature"] == signature:
            return v
    return None


def _spec_candidates(spec):
    """smaller variants of a program spec (generic over the op-list format)."""
    th = spec.get("threads")
    if th is not None:
        # drop a whole user thread
        for i in range(len(th) - 1, 0, -1):
            c = copy.deepcopy(spec)
            del c["threads"][i]
            yield c
        # drop one op
        for i in range(len(th)):
            for j in range(len(th[i]) - 1, -1, -1):
                if th[i][j]["op"] in ("create",) or th[i][j].get("keep"):
                    continue
                c = copy.deepcopy(spec)
                del c["threads"][i][j]
                yield c
        # simplify tasks
        for i in range(len(th)):
            for j, o in enumerate(th[i]):
                t = o.get("task")
                if t and not o.get("keep"):
                    if t.get("dur"):
                        c = copy.deepcopy(spec)
                        c["threads"][i][j]["task"]["dur"] = 0
                        yield c
                    if t.get("kind", "work") != "work":
                        c = copy.deepcopy(spec)
                        c["threads"][i][j]["task"] = dict(id=t["id"], kind="work", dur=t.get("dur", 0))
                        yield c
                    if o.get("args"):
                        c = copy.deepcopy(spec)
                        del c["threads"][i][j]["args"]
                        yield c
    for i in range(len(spec.get("faults") or [])):
        c = copy.deepcopy(spec)
        del c["faults"][i]
        yield c
    kn = spec.get("knobs") or {}
    if kn.get("line_q"):
        c = copy.deepcopy(spec)
        c["knobs"]["line_q"] = 0.0
        yield c
    if kn.get("bias"):
        c = copy.deepcopy(spec)
        c["knobs"]["bias"] = {}
        yield c
    for key in ("ops", "parties", "clients", "lifecycles", "requests"):
        lst = spec.get(key)
        if isinstance(lst, list):
            for i in range(len(lst) - 1, -1, -1):
                if isinstance(lst[i], dict) and lst[i].get("keep"):
                    continue
                c = copy.deepcopy(spec)
                del c[key][i]
                yield c
                if isinstance(lst[i], list) and lst[i] and isinstance(lst[i][0], (list, dict)):
                    for j in range(len(lst[i]) - 1, -1, -1):
                        c = copy.deepcopy(spec)
                        del c[key][i][j]
                        yield c


def minimise(prop, spec, decisions, signature, budget_s=45.0, log=None):
    """shrink program, fault plan and schedule while the same signature persists.
    Returns (spec, decisions, violation) of the smallest reproduction found."""
    t_end = time.time() + budget_s
    runs = 0
    best_spec = spec
    # phase 1: program / fault plan (re-recording the schedule from a few seeds)
    improved = True
    while improved and time.time() < t_end:
        improved = False
        for cand in _spec_candidates(best_spec):
            if time.time() > t_end:
                break
            seeds = [best_spec["seed"]] + [(best_spec["seed"] * 31 + k * 977 + 1) & 0x7FFFFFFF for k in range(3)]
            for sd in seeds:
                c = copy.deepcopy(cand)
                c["seed"] = sd
                try:
                    res, viols = run_spec(prop, c)
                except Exception:
                    break
                runs += 1
                if res.harness_error:
                    continue
                if _same(viols, signature):
                    best_spec = c
                    improved = True
                    break
            if improved:
                break
    # re-record the decisions of the (possibly) reduced program
    res, viols = run_spec(prop, best_spec)
    runs += 1
    v = _same(viols, signature)
    if v is None:
        # fall back to the original
        best_spec = spec
        res, viols = run_spec(prop, spec, replay=decisions)
        v = _same(viols, signature)
        if v is None:
            return None
    best_dec = list(res.decisions)
    # phase 2: schedule.  (i) shortest prefix followed by default decisions
    lo, hi = 0, len(best_dec)
    while lo < hi and time.time() < t_end:
        mid = (lo + hi) // 2
        r2, v2 = run_spec(prop, best_spec, replay=best_dec[:mid], lenient=True)
        runs += 1
        if not r2.harness_error and _same(v2, signature):
            hi = mid
        else:
            lo = mid + 1
    best_dec = best_dec[:hi]
    # (ii) replace chunks by defaults (ddmin-like)
    n = 2
    while len(best_dec) >= 2 and time.time() < t_end and n <= len(best_dec):
        size = max(1, len(best_dec) // n)
        changed = False
        for start in range(0, len(best_dec), size):
            if time.time() > t_end:
                break
            if all(x is None for x in best_dec[start:start + size]):
                continue
            cand = best_dec[:start] + [None] * len(best_dec[start:start + size]) + best_dec[start + size:]
            r2, v2 = run_spec(prop, best_spec, replay=cand, lenient=True)
            runs += 1
            if not r2.harness_error and _same(v2, signature):
                best_dec = cand
                changed = True
        if not changed:
            if size == 1:
                break
            n = min(len(best_dec), n * 2)
    # canonical form: the decisions actually taken under the minimised list
    r3, v3 = run_spec(prop, best_spec, replay=best_dec, lenient=True)
    v = _same(v3, signature)
    if v is None:
        return None
    canon = list(r3.decisions)
    r4, v4 = run_spec(prop, best_spec, replay=canon)
    v = _same(v4, signature)
    if v is None or r4.harness_error:
        return None
    if log is not None:
        log["minimise_runs"] = runs
        log["decisions_before"] = len(decisions)
        log["decisions_after"] = len(canon)
        log["nondefault_after"] = sum(1 for x in canon if x is not None)
    return best_spec, canon, v


def write_replay(path, prop, spec, decisions, viol, extra=None):
    doc = dict(property=prop.id, engine_version=ENGINE_VERSION,
               loky_fingerprint=harness.loky_fingerprint(), spec=spec, seed=spec["seed"],
               decisions=decisions,
               violation=dict(signature=viol["signature"], message=viol["message"][:2000]))
    if viol.get("snapshot"):
        doc["violation"]["blocked_tasks"] = [
            dict(role=t["role"], pid=t["pid"], what=t["what"], api=t["api"], where=t["where"][:12])
            for t in viol["snapshot"]]
    if extra:
        doc.update(extra)
    os.makedirs(os.path.dirname(path), exist_ok=True)
    with open(path, "w") as f:
        json.dump(doc, f, indent=1, default=str)
    return path


def replay(path):
    doc = json.load(open(path))
    prop = load_prop(doc["property"])
    res, viols = run_spec(prop, doc["spec"], replay=doc["decisions"])
    return doc, prop, res, viols


# ---------------------------------------------------------------- worker process
def worker_main(argv):
    pid, tier, base, start, count, outpath = argv[0], argv[1], int(argv[2]), int(argv[3]), int(argv[4]), argv[5]
    want_digest = len(argv) > 6 and argv[6] == "digest"
    prop = load_prop(pid)
    harness.warm_up()
    out = open(outpath, "a", buffering=1)
    import faulthandler
    for i in range(start, start + count):
        seed = run_seed(base, i)
        out.write(json.dumps({"start": i, "seed": seed}) + "\n")
        faulthandler.dump_traceback_later(150, exit=True)
        res = None
        try:
            spec = make_spec(prop, seed, tier)
            res, viols = run_spec(prop, spec)
            d = summarize(prop, spec, res, viols, want_sample=(i % 200 == 0))
            if want_digest:
                d["digest"] = harness.digest_of(res)
        except Exception as e:  # harness bug: reported, never a pass
            import traceback
            d = dict(seed=seed, outcome="harness_exception", harness_error=traceback.format_exc()[-1500:],
                     viol=[], steps=0, sim_s=0, wall=0, nontrivial=False, faults={}, probes={}, features={})
        finally:
            faulthandler.cancel_dump_traceback_later()
        d["i"] = i
        out.write(json.dumps(d, default=str) + "\n")
        if res is not None and (res.sched.leaked_threads or _rss_mb() > 1500):
            out.write(json.dumps({"recycle": i}) + "\n")
            out.close()
            os._exit(3)
        res = None
    out.write(json.dumps({"done": True}) + "\n")
    out.close()
    sys.stdout.flush()
    os._exit(0)


def _rss_mb():
    try:
        with open("/proc/self/statm") as f:
            return int(f.read().split()[1]) * 4096 / 1e6
    except Exception:
        return 0
