"""debug helper: python -m simloky.debug C01 <seed|replay.json> [-v]"""
import json
import sys

from . import engine, harness


def show(prop, spec, res, viols, verbose=False):
    print("outcome", res.outcome, "steps", res.sched.steps, "now", round(res.sched.now, 4),
          "herr", res.harness_error, "digest", harness.digest_of(res))
    print("knobs", spec.get("knobs"), "model", spec.get("model"), "faults", spec.get("faults"))
    for i, th in enumerate(spec.get("threads", [])):
        print(" thread", i)
        for o in th:
            print("    ", json.dumps(o))
    for v in viols:
        print("VIOL", v["signature"], "|", v["message"][:300])
    print("task_errors", res.sched.task_errors)
    print("thread_excs", res.run.thread_excs)
    print("program_exc", res.program_exc)
    print("warnings", res.run.warnings[:10])
    print("fault_log", res.run.fault_log)
    for fid, r in res.obs.futures.items():
        from .props import base
        print("  fut", fid, base.fut_state(r), "cancel", r.get("cancel"))
    if res.sched.snapshot:
        for t in res.sched.snapshot:
            print("  BLOCKED", t["tid"], t["role"], "p%d" % t["pid"], t["state"], t["what"], "api", t["api"],
                  "alive", t["alive"], "dl", t["deadline"])
            print("       ", " < ".join(t["where"][:14]))
    if verbose:
        for e in res.obs.events:
            print("  ev", e["seq"], "T%d" % e["thread"], e["op"], e["phase"], round(e["now"], 4), e.get("r"))
        for x in res.kernel.log:
            print("  k", x)
        for e in res.obs.exec_log:
            print("  exec", e)


def main(argv):
    prop = engine.load_prop(argv[0])
    verbose = "-v" in argv
    if argv[1].endswith(".json"):
        doc, prop, res, viols = engine.replay(argv[1])
        spec = doc["spec"]
    else:
        seed = int(argv[1])
        tier = "quick"
        spec = engine.make_spec(prop, seed, tier)
        res, viols = engine.run_spec(prop, spec)
    show(prop, spec, res, viols, verbose)


if __name__ == "__main__":
    main(sys.argv[1:])


def find(argv):
    """python -m simloky.debug_find C01 <substr> <start> <n>"""
    prop = engine.load_prop(argv[0])
    sub, start, n = argv[1], int(argv[2]), int(argv[3])
    base = 0
    for i in range(start, start + n):
        seed = engine.run_seed(base, i)
        spec = engine.make_spec(prop, seed, "quick")
        res, viols = engine.run_spec(prop, spec)
        txt = repr([v["signature"] for v in viols]) + repr(res.run.thread_excs) + repr(res.sched.task_errors) + str(res.harness_error)
        if sub in txt:
            print("FOUND i=%d seed=%d %s" % (i, seed, txt[:300]))
            sys.stdout.flush()
