"""Python-runtime seams: simulated locks and semaphores, fake leaf modules,
per-process module sets, threading patches, process start / interpreter exit.
"""
import ast
import atexit as real_atexit
import gc
import importlib
import io
import logging
import os as real_os
import queue as _queue_mod
import signal as real_signal
import sys
import threading
import time as real_time
import types
import warnings
import concurrent.futures._base as _cf_base

from . import kernel as sk

REPO = real_os.environ.get("VERIF_REPO", "/repo")
PREFIXES = ("loky", "multiprocessing")
OVERLAY_BOOT = ("os", "time", "signal", "atexit")           # visible while a module set is instantiated
OVERLAY_RUN = ("_multiprocessing", "_posixsubprocess", "psutil")   # lazily imported: visible during the whole run


def _is_mine(name):
    return name == "loky" or name == "multiprocessing" or name.startswith("loky.") \
        or name.startswith("multiprocessing.")


class _RT:
    sched = None
    kernel = None
    installed = None
    run = None


RT = _RT()


# ------------------------------------------------------------------ locks
class SimLock:
    """threading.Lock replacement."""
    __slots__ = ("_locked", "__weakref__")

    def __init__(self):
        self._locked = False

    def acquire(self, blocking=True, timeout=-1):
        s = RT.sched
        if s is None or s.cur() is None:
            if self._locked:
                if not blocking or (s is not None and s.teardown):
                    return False
                raise sk.HarnessError("SimLock contended outside the simulation")
            self._locked = True
            return True
        s.yield_("lock.acq")
        if not self._locked:
            self._locked = True
            return True
        if not blocking:
            return False
        ok = s.block_until(lambda: not self._locked,
                           None if timeout is None or timeout < 0 else timeout, "lock")
        if ok:
            self._locked = True
        return ok

    __enter__ = acquire

    def release(self):
        if not self._locked:
            s = RT.sched
            if s is not None:
                cur = s.cur()
                if s.teardown or (cur is not None and cur.killed):
                    raise sk.SimKilled()      # unwinding: keep unwinding
            raise RuntimeError("release unlocked lock")
        self._locked = False

    def __exit__(self, *a):
        self.release()

    def locked(self):
        return self._locked

    def _at_fork_reinit(self):
        self._locked = False


class SimSemLock:
    """_multiprocessing.SemLock re-implemented over the kernel's named semaphores
    (after Modules/_multiprocessing/semaphore.c)."""
    SEM_VALUE_MAX = 2147483647

    def __init__(self, kind, value, maxvalue, name, unlink):
        k = RT.kernel
        cur = RT.sched.cur()
        if name in k.sems:
            raise FileExistsError(17, "File exists (sem_open %s)" % name)
        sem = sk.Sem(value, name, cur.proc.pid if cur else 0)
        k.sems[name] = sem
        k.all_sems.append(sem)
        k.log.append(("sem_open", name, sem.creator))
        if unlink:
            del k.sems[name]
            sem.linked = False
        self._sem = sem
        self.kind = kind
        self.maxvalue = maxvalue
        self.name = None if unlink else name       # as semaphore.c: no name is kept for an unlinked semaphore
        self.handle = len(k.all_sems)
        self.count = 0
        self.last_tid = None
        self._proc = cur.proc if cur else None

    @classmethod
    def _rebuild(cls, handle, kind, maxvalue, name):
        self = cls.__new__(cls)
        k = RT.kernel
        cur = RT.sched.cur()
        sem = k.sems.get(name)
        if sem is None:
            raise FileNotFoundError(2, "No such file or directory (sem_open %s)" % name)
        self._sem = sem
        self.kind = kind
        self.maxvalue = maxvalue
        self.name = name
        self.handle = handle
        self.count = 0
        self.last_tid = None
        self._proc = cur.proc if cur else None
        return self

    def _is_mine(self):
        return self.count > 0 and self.last_tid == sk.REAL_GET_IDENT()

    def _count(self):
        return self.count

    def _get_value(self):
        return self._sem.value

    def _is_zero(self):
        return self._sem.value == 0

    def _after_fork(self):
        self.count = 0

    def acquire(self, block=True, timeout=None):
        s = RT.sched
        if self.kind == 0 and self._is_mine():
            self.count += 1
            return True
        s.yield_("sem.acq")
        sem = self._sem
        if sem.value == 0:
            if not block:
                return False
            cur = s.cur()
            cur.wobj = sem
            ok = s.block_until(lambda: sem.value > 0, timeout, "sem")
            cur.wobj = None
            if not ok:
                return False
        sem.value -= 1
        sem.last_acq = self._proc.pid if self._proc is not None else None
        self.count += 1
        self.last_tid = sk.REAL_GET_IDENT()
        return True

    def release(self):
        s = RT.sched
        cur_ = s.cur()
        if s.teardown or (cur_ is not None and cur_.killed):
            raise sk.SimKilled()          # unwinding: no effect, no secondary errors
        if self.kind == 0:
            if not self._is_mine():
                raise AssertionError("attempt to release recursive lock not owned by thread")
            if self.count > 1:
                self.count -= 1
                return
        else:
            if self._sem.value >= self.maxvalue:
                raise ValueError("semaphore or lock released too many times")
        s.yield_("sem.rel")
        p = self._proc
        if (p is not None and not p.alive) or s.teardown:
            raise sk.SimKilled()
        self._sem.value += 1
        self.count -= 1

    def __enter__(self):
        return self.acquire()

    def __exit__(self, *a):
        self.release()


def sim_sem_unlink(name):
    k = RT.kernel
    cur = RT.sched.cur()
    if (cur is not None and not cur.proc.alive) or RT.sched.teardown:
        raise sk.SimKilled()
    sem = k.sems.pop(name, None)
    if sem is None:
        raise FileNotFoundError(2, "No such file or directory")
    sem.linked = False
    k.log.append(("sem_unlink", name, cur.proc.pid if cur else 0, cur.tid if cur else -1))


# ------------------------------------------------------------------ fake modules
def make_module(name, real, overrides):
    m = types.ModuleType(name)
    m.__dict__.update(real.__dict__)
    m.__dict__.update(overrides)
    return m


class SimFile(io.RawIOBase):
    def __init__(self, proc, fd, mode):
        self.proc, self.fd, self.mode = proc, fd, mode

    def readable(self):
        return "r" in self.mode

    def writable(self):
        return "w" in self.mode

    def readinto(self, b):
        data = RT.kernel.read(self.proc, self.fd, len(b))
        b[: len(data)] = data
        return len(data)

    def write(self, b):
        return RT.kernel.write(self.proc, self.fd, bytes(b))

    def close(self):
        if not self.closed:
            super().close()
            try:
                RT.kernel.close(self.proc, self.fd)
            except OSError:
                pass

    def fileno(self):
        return self.fd


def fake_os(proc):
    k = RT.kernel

    def fdopen(fd, mode="r", *a, **kw):
        raw = SimFile(proc, fd, mode)
        if "r" in mode:
            return io.BufferedReader(raw)
        return io.BufferedWriter(raw)

    def _exit(code):
        k.s.yield_("_exit")
        k.exit_proc(proc, ("exit", code))
        raise sk.SimKilled()

    def set_inheritable(fd, v):
        if fd >= sk.FD_BASE:
            k._of(proc, fd)
            proc.inh[fd] = bool(v)

    def get_inheritable(fd):
        k._of(proc, fd)
        return proc.inh[fd]

    def close(fd):
        if fd < sk.FD_BASE:
            raise sk.HarnessError("close of a real fd %r from simulated code" % fd)
        k.close(proc, fd)

    env = type("Env", (dict,), {})(proc.env)
    proc.env = env
    ov = dict(
        getpid=lambda: proc.pid,
        getppid=lambda: proc.ppid,
        pipe=lambda: k.pipe(proc),
        close=close,
        read=lambda fd, n: k.read(proc, fd, n),
        write=lambda fd, data: k.write(proc, fd, data),
        set_inheritable=set_inheritable,
        get_inheritable=get_inheritable,
        waitpid=lambda pid, flags: k.waitpid(proc, pid, flags),
        kill=lambda pid, sig: k.kill(pid, int(sig)),
        fdopen=fdopen,
        environ=env,
        getcwd=lambda: proc.cwd,
        chdir=lambda d: setattr(proc, "cwd", d),
        cpu_count=lambda: RT.run.model["cpu"],
        sched_getaffinity=lambda pid: set(range(RT.run.model["cpu"])),
        _exit=_exit,
        fork=_no_fork,
    )
    return make_module("os", real_os, ov)


def _no_fork():
    run = RT.run
    cur = RT.sched.cur()
    run.obs.notes.append(("fork-attempted", cur.proc.pid if cur else 0))
    raise OSError(38, "fork() is not modelled by the simulator")


def fake_time(proc):
    s = RT.sched
    ov = dict(
        time=lambda: 1e9 + s.now,
        monotonic=lambda: s.now,
        perf_counter=lambda: s.now,
        sleep=lambda d: s.sleep(d),
    )
    return make_module("time", real_time, ov)


def fake_signal(proc):
    k = RT.kernel

    def signal_(sig, h):
        sig = int(sig)
        old = proc.sigdisp.get(sig, "dfl")
        if h == real_signal.SIG_IGN:
            proc.sigdisp[sig] = "ign"
        elif h == real_signal.SIG_DFL:
            proc.sigdisp[sig] = "dfl"
        else:
            raise sk.HarnessError("python-level signal handlers are not modelled")
        k.log.append(("sigdisp", proc.pid, sig, proc.sigdisp[sig]))
        return real_signal.SIG_IGN if old == "ign" else real_signal.SIG_DFL

    def pthread_sigmask(how, sigs):
        t = RT.sched.cur()
        if t is None:
            return set()
        old = set(t.sigmask)
        sigs = set(map(int, sigs))
        if how == real_signal.SIG_BLOCK:
            t.sigmask |= sigs
        elif how == real_signal.SIG_UNBLOCK:
            t.sigmask -= sigs
        elif how == real_signal.SIG_SETMASK:
            t.sigmask = sigs
        k.log.append(("sigmask", proc.pid, how, sorted(sigs)))
        k.sigmask_changed(proc)
        if not proc.alive:
            raise sk.SimKilled()
        return old

    return make_module("signal", real_signal, dict(signal=signal_, pthread_sigmask=pthread_sigmask))


def fake_posixsubprocess(proc):
    k = RT.kernel

    def fork_exec(args, executable_list, close_fds, pass_fds, cwd, env, *rest):
        k.s.yield_("fork_exec")
        argv = [real_os.fsdecode(a) for a in args]
        if env is None:
            cenv = dict(proc.env)
        else:
            cenv = dict(real_os.fsdecode(e).split("=", 1) for e in env)
        child = k.new_proc(proc.pid, cenv, argv)
        child.sigdisp = {s: d for s, d in proc.sigdisp.items() if d == "ign"}
        for fd, of in proc.fds.items():
            if fd in pass_fds or (not close_fds and proc.inh.get(fd)):
                child.fds[fd] = of
                child.inh[fd] = True
                of.incref()
        child.exec_fds = sorted(child.fds)
        child.info["exec_pipes"] = [(fd, of.pipe.n, of.mode, of.pipe.origin, of.pipe.born_step) for fd, of in sorted(child.fds.items())]
        child.info["parent_prev_exec_step"] = proc.info.get("last_exec_step", -1)
        proc.info["last_exec_step"] = k.s.steps
        child.exec_env = dict(cenv)
        child.info["close_fds"] = bool(close_fds)
        child.info["pass_fds"] = sorted(int(f) for f in pass_fds)
        trk = sys.modules.get("loky.backend.resource_tracker")
        mpt = sys.modules.get("multiprocessing.resource_tracker")
        child.info["tracker_fds"] = [x for x in (
            getattr(getattr(trk, "_resource_tracker", None), "_fd", None),
            getattr(getattr(mpt, "_resource_tracker", None), "_fd", None)) if x is not None]
        cur_ = RT.sched.cur()
        plain = cur_ is not None and cur_.api is not None and cur_.api[0] == "child_exit"
        child.info["pool"] = not plain
        child.info["ctx"] = (cur_.api[3] if plain and len(cur_.api) > 3 else RT.run.spec.get("ctx"))
        child.info["parent_env_at_exec"] = dict(proc.env)
        child.info["parent_fds_at_exec"] = sorted(proc.fds)
        child.info["parent_inheritable_at_exec"] = sorted(f for f, v in proc.inh.items() if v)
        k.log.append(("exec", proc.pid, child.pid, argv[1:3]))
        start_process(child)
        return child.pid

    m = types.ModuleType("_posixsubprocess")
    m.fork_exec = fork_exec
    return m


def fake_multiprocessing_c(proc):
    import _multiprocessing as real
    return make_module("_multiprocessing", real, dict(SemLock=SimSemLock, sem_unlink=sim_sem_unlink))


def fake_atexit(proc):
    at = types.ModuleType("atexit")

    def register(fn, *a, **kw):
        proc.atexits.append((fn, a, kw))
        return fn

    def unregister(fn):
        proc.atexits[:] = [x for x in proc.atexits if x[0] is not fn]

    at.register = register
    at.unregister = unregister
    return at


def fake_psutil(proc):
    class NoSuchProcess(Exception):
        pass

    class _Mem:
        def __init__(self, rss):
            self.rss = rss

    class Process:
        def __init__(self, pid=None):
            self.pid = proc.pid if pid is None else pid
            p = RT.kernel.procs.get(self.pid)
            if p is None or p.reaped:        # a zombie still exists for psutil
                raise NoSuchProcess(pid)

        def memory_info(self):
            return _Mem(RT.kernel.procs[self.pid].rss)

        def children(self, recursive=False):
            RT.sched.yield_("psutil.children")
            return [Process(c.pid) for c in RT.kernel.children(self.pid, recursive)]

        def kill(self):
            try:
                RT.kernel.kill(self.pid, sk.SIGKILL)
            except ProcessLookupError:
                raise NoSuchProcess(self.pid) from None

        def is_running(self):
            p = RT.kernel.procs.get(self.pid)
            return p is not None and not p.reaped

        def wait(self, timeout=None):
            """like psutil: a child of the caller is waited for with waitpid() - and so reaped -, any other
            process is polled until its pid is gone."""
            k = RT.kernel
            p = k.procs.get(self.pid)
            if p is None or p.reaped:
                return None
            RT.sched.yield_("psutil.wait")
            if p.alive:
                RT.sched.block_until(lambda: not p.alive, timeout, "waitpid")
                if p.alive:
                    raise TimeoutExpired(timeout)
            if p.ppid == proc.pid and not p.reaped:
                p.reaped = True
                k.log.append(("reap", p.pid, proc.pid))
                kind, v = p.status
                return v if kind == "exit" else -v
            return None

    class TimeoutExpired(Exception):
        pass

    def wait_procs(procs, timeout=None, callback=None):
        gone, alive = [], []
        for q in procs:
            try:
                q.wait(timeout)
                gone.append(q)
            except TimeoutExpired:
                alive.append(q)
        return gone, alive

    def pid_exists(pid):
        p = RT.kernel.procs.get(pid)
        return p is not None and not p.reaped

    m = types.ModuleType("psutil")
    m.Process = Process
    m.NoSuchProcess = NoSuchProcess
    m.TimeoutExpired = TimeoutExpired
    m.wait_procs = wait_procs
    m.pid_exists = pid_exists
    return m


def fake_subprocess(proc):
    """only what loky.backend.utils needs: `pgrep -P pid`."""
    import subprocess as real

    def check_output(cmd, stderr=None, text=False, **kw):
        if cmd[:2] != ["pgrep", "-P"]:
            raise sk.HarnessError("unexpected subprocess call %r" % (cmd,))
        RT.sched.yield_("pgrep")
        pids = [c.pid for c in RT.kernel.children(int(cmd[2]), False)]
        if not pids:
            raise real.CalledProcessError(1, cmd)
        return "".join("%d\n" % p for p in pids)

    return make_module("subprocess", real, dict(check_output=check_output))


class OrderedSet:
    """insertion-ordered replacement for multiprocessing.process._children."""

    def __init__(self, it=()):
        self._d = dict.fromkeys(it)

    def add(self, x):
        self._d[x] = None

    def discard(self, x):
        self._d.pop(x, None)

    def clear(self):
        self._d.clear()

    def __iter__(self):
        return iter(list(self._d))

    def __len__(self):
        return len(self._d)

    def __contains__(self, x):
        return x in self._d


class _NameSeq:
    def __init__(self):
        self.n = 0

    def __iter__(self):
        return self

    def __next__(self):
        self.n += 1
        return "s%06d" % self.n


class ProxyModules(dict):
    """sys.modules as seen by a simulated process: private __main__."""

    def __missing__(self, key):
        return sys.modules[key]

    def get(self, key, default=None):
        if dict.__contains__(self, key):
            return dict.__getitem__(self, key)
        return sys.modules.get(key, default)

    def __contains__(self, key):
        return dict.__contains__(self, key) or key in sys.modules


# ------------------------------------------------------------------ module sets
def _overlay(proc):
    model = RT.run.model
    ov = {
        "os": fake_os(proc),
        "time": fake_time(proc),
        "signal": fake_signal(proc),
        "atexit": fake_atexit(proc),
        "_multiprocessing": fake_multiprocessing_c(proc),
        "_posixsubprocess": fake_posixsubprocess(proc),
        "psutil": fake_psutil(proc) if model.get("psutil", True) else None,
    }
    return ov


_SAVED = {}


def install(proc):
    """Make `proc`'s module set the one visible in sys.modules."""
    cur = RT.installed
    if cur is proc:
        return
    mods = sys.modules
    if cur is not None:
        cm = cur.modules
        for name in [n for n in mods if _is_mine(n)]:
            if name not in cm and cm and getattr(cur, "booted_modules", False):
                cur.late_modules = getattr(cur, "late_modules", []) + [name]
            cm[name] = mods.pop(name)
    else:
        for name in [n for n in mods if _is_mine(n)]:
            _SAVED[name] = mods.pop(name)
        for name in OVERLAY_RUN:
            if name in mods:
                _SAVED[name] = mods[name]
    if proc is not None:
        mods.update(proc.modules)
        for name in OVERLAY_RUN:
            mods[name] = proc.overlay[name]
    else:
        for name in OVERLAY_RUN:
            mods.pop(name, None)
        mods.update(_SAVED)
        _SAVED.clear()
    RT.installed = proc


LOKY_MODULES = (
    "loky", "loky.backend", "loky.backend.context", "loky.backend.process",
    "loky.backend.reduction", "loky.backend._posix_reduction", "loky.backend.queues",
    "loky.backend.synchronize", "loky.backend.resource_tracker", "loky.backend.spawn",
    "loky.backend.fork_exec", "loky.backend.popen_loky_posix", "loky.backend.utils",
    "loky.process_executor", "loky.reusable_executor", "loky._base", "loky.initializers",
    "loky.cloudpickle_wrapper",
)
MP_MODULES = (
    "multiprocessing", "multiprocessing.context", "multiprocessing.process",
    "multiprocessing.util", "multiprocessing.connection", "multiprocessing.queues",
    "multiprocessing.reduction", "multiprocessing.resource_tracker",
    "multiprocessing.synchronize", "multiprocessing.spawn", "multiprocessing.resource_sharer",
    # start-method back-ends a (mutated) loky could reach: they must see the fake os (os.fork is trapped)
    "multiprocessing.popen_fork", "multiprocessing.popen_spawn_posix", "multiprocessing.popen_forkserver",
    "multiprocessing.forkserver", "multiprocessing.pool", "multiprocessing.managers", "multiprocessing.sharedctypes",
    "multiprocessing.heap", "multiprocessing.shared_memory",
)


def boot_modules(proc):
    """Instantiate a fresh copy of every loky.* / multiprocessing.* module for
    `proc`, bound to its fake leaf modules."""
    install(proc)
    mods = sys.modules
    saved = {n: mods.get(n) for n in OVERLAY_BOOT}
    for n in OVERLAY_BOOT:
        mods[n] = proc.overlay[n]
    try:
        import multiprocessing.connection as mpc
        mpc.wait = make_wait(proc)
        for n in MP_MODULES:
            importlib.import_module(n)
        import multiprocessing.process as mpp
        import multiprocessing.util as mpu
        import multiprocessing.resource_tracker as mprt
        import multiprocessing.synchronize as mpsync
        mpp.set = OrderedSet
        mpp._children = OrderedSet()
        mpp.ORIGINAL_DIR = proc.cwd
        for n in LOKY_MODULES:
            importlib.import_module(n)
    finally:
        for n in OVERLAY_BOOT:
            if saved[n] is None:
                mods.pop(n, None)
            else:
                mods[n] = saved[n]
    import loky.backend.resource_tracker as rt
    import loky.backend.synchronize as lsync
    import loky.backend.spawn as lspawn
    import loky.backend.popen_loky_posix as lpopen
    import loky.backend.utils as lutils
    import loky.process_executor as lpe
    fos = proc.overlay["os"]
    quiet = _Quiet()
    rt.sys = make_module("sys", sys, dict(stdin=io.StringIO(), stdout=io.StringIO(), stderr=quiet))
    rt.open = lambda fd, mode="r", *a, **kw: fos.fdopen(fd, mode)
    pm = ProxyModules()
    pm["__main__"] = proc.info.get("main_module") or types.ModuleType("__main__")
    sysproxy = make_module("sys", sys, dict(
        argv=list(proc.info.get("sys_argv", ["/simcwd/user_script.py"])), path=list(sys.path),
        modules=pm, stdout=quiet, stderr=quiet, executable="/sim/bin/python"))
    lspawn.sys = sysproxy
    lspawn._python_exe = "/sim/bin/python"
    lspawn.runpy = _FakeRunpy(proc)
    lpopen.sys = sysproxy
    lpopen.print = _noprint
    lpe.print = _noprint
    lpe.gc = types.SimpleNamespace(collect=lambda *a: 0)
    lpe.faulthandler = types.SimpleNamespace(is_enabled=lambda: True, enable=lambda *a, **k: None)
    if proc.pid == 100 and RT.run is not None and RT.run.spec.get("watch_flag_looks"):
        # observation only: when does the manager thread look at the kill_workers flag, and what does it see
        _orig_look = lpe._ExecutorManagerThread.flag_executor_shutting_down

        def _look(self, _orig=_orig_look):
            RT.run.obs.notes.append(("mgr-flag-look", 100, RT.sched.now, bool(self.executor_flags.kill_workers),
                                     RT.sched.steps))
            return _orig(self)
        lpe._ExecutorManagerThread.flag_executor_shutting_down = _look
    lutils.subprocess = fake_subprocess(proc)
    lsync.SemLock._rand = _NameSeq()
    mpsync.SemLock._rand = lsync.SemLock._rand
    # stdlib pieces that are stubbed (not loky code)
    def _info(msg, *a, _pid=proc.pid):
        run = RT.run
        if run is not None and isinstance(msg, str) and msg.startswith(("Shutting down worker", "Memory leak", "Could not acquire", "Main process did not")):
            run.obs.notes.append(("mpinfo", _pid, RT.sched.now, msg[:48]))
    mpu.info = _info

    def _debug(msg, *a, _pid=proc.pid):
        run = RT.run
        if run is not None and isinstance(msg, str) and msg.startswith(("found ", "closing call_queue")):
            run.obs.notes.append(("mpdebug", _pid, RT.sched.now, msg[:48], RT.sched.steps))
    mpu.debug = _debug
    mpu._close_stdin = lambda: None
    mpu._flush_std_streams = lambda: None
    mprt._resource_tracker = _StubMpTracker(proc)
    for fn_ in ("ensure_running", "register", "unregister", "getfd"):
        setattr(mprt, fn_, getattr(mprt._resource_tracker, fn_))
    mprt.sys = make_module("sys", sys, dict(stdin=io.StringIO(), stdout=io.StringIO(), stderr=quiet))
    for m_ in (mpsync,):
        if hasattr(m_, "register"):
            m_.register = mprt._resource_tracker.register
        if hasattr(m_, "unregister"):
            m_.unregister = mprt._resource_tracker.unregister
    hook = RT.run.post_boot
    if hook is not None:
        hook(proc)
    proc.modules.update({n: m for n, m in sys.modules.items() if _is_mine(n)})
    proc.booted_modules = True
    return proc.modules


class _Quiet:
    def write(self, s):
        return len(s)

    def flush(self):
        pass

    def fileno(self):
        return 2

    def close(self):
        pass


def _noprint(*a, **k):
    pass


class _FakeRunpy:
    def __init__(self, proc):
        self.proc = proc

    def run_module(self, mod_name, run_name=None, alter_sys=False):
        RT.kernel.log.append(("runpy", self.proc.pid, "module", mod_name))
        return self._user_main()

    def run_path(self, path, run_name=None):
        RT.kernel.log.append(("runpy", self.proc.pid, "path", path))
        return self._user_main()

    def _user_main(self):
        """the user's main module as re-imported in a child: optionally its import-time code performs a tracked
        operation (creates a loky Lock kept in a module global)."""
        run = RT.run
        if run is None or not run.spec.get("main_tracked_op"):
            return {}
        from loky.backend import get_context          # this process's own module copies
        lk = get_context("loky").Lock()
        trk = sys.modules["loky.backend.resource_tracker"]._resource_tracker
        run.obs.notes.append(("main-import-tracker", self.proc.pid, trk._pid))
        return {"module_level_lock": lk}


class _StubMpTracker:
    """stands for the stdlib resource tracker: only an fd and a pid."""

    def __init__(self, proc):
        self._proc = proc
        self._fd = None
        self._pid = None

    def ensure_running(self):
        if self._fd is None:
            r, w = RT.kernel.pipe(self._proc)
            self._keep = r
            self._fd = w
            self._pid = 1

    def getfd(self):
        self.ensure_running()
        return self._fd

    def register(self, *a):
        pass

    unregister = register


def make_wait(proc):
    def wait(object_list, timeout=None):
        k = RT.kernel
        s = RT.sched
        s.yield_("wait")

        def fd_of(o):
            return o if isinstance(o, int) else o.fileno()

        fds = [(o, fd_of(o)) for o in object_list]

        def ready():
            return [o for o, fd in fds if k.readable(proc, fd)]
        r = ready()
        if not r and (timeout is None or timeout > 0):
            s.block_until(lambda: bool(ready()), timeout, "wait")
            r = ready()
        return r
    return wait


# ------------------------------------------------------------------ threading patches
_orig = {}


def _role_of_thread(th):
    name = getattr(th, "name", "") or ""
    if name.startswith("ExecutorManagerThread"):
        return "manager"
    if name.startswith("QueueFeederThread"):
        return "feeder"
    if name.startswith("user"):
        return name
    return "thread"


def patch_threading():
    t = threading
    _orig.update(
        _allocate_lock=t._allocate_lock, Lock=t.Lock, _CRLock=t._CRLock,
        _start_new_thread=t._start_new_thread, _set_sentinel=t._set_sentinel,
        _register_atexit=t._register_atexit, _time=t._time, _shutdown=t._shutdown,
        excepthook=t.excepthook, queue_time=_queue_mod.time, cf_time=_cf_base.time,
        showwarning=warnings.showwarning,
    )
    t._allocate_lock = SimLock
    t.Lock = SimLock
    t._CRLock = None

    def start_new_thread(fn, args=(), kwargs={}):
        s = RT.sched
        cur = s.cur()
        th = getattr(fn, "__self__", None)

        def body():
            try:
                fn(*args, **kwargs)
            finally:
                lk = getattr(th, "_tstate_lock", None)
                if lk is not None and lk._locked:
                    lk._locked = False
        task = s.spawn(cur.proc, getattr(th, "name", "thr"), body,
                       daemon=getattr(th, "daemon", False), role=_role_of_thread(th))
        task.is_py_thread = True
        return 0

    t._start_new_thread = start_new_thread
    t._set_sentinel = SimLock

    def register_atexit(fn, *a, **kw):
        proc = RT.sched.cur().proc
        if getattr(proc, "thr_shutting_down", False):
            raise RuntimeError("can't register atexit after shutdown")      # as CPython's threading._register_atexit
        proc.thr_atexits.append((fn, a, kw))
    t._register_atexit = register_atexit
    t._time = lambda: RT.sched.now

    def _shutdown():
        thread_shutdown(RT.sched.cur().proc)
    t._shutdown = _shutdown

    def hook(args, _o=t.excepthook):
        if args.exc_type is sk.SimKilled:
            return
        run = RT.run
        s = RT.sched
        if s is not None:
            cur = s.cur()
            if s.teardown or (cur is not None and cur.killed):
                return                    # post-mortem noise of the unwinding
        if run is not None:
            run.thread_excs.append((getattr(args.thread, "name", "?"), args.exc_type.__name__,
                                    str(args.exc_value)[:300], sk._innermost_repo_func(args.exc_traceback)))
            return
        _o(args)
    t.excepthook = hook
    _queue_mod.time = lambda: RT.sched.now
    _cf_base.time = types.SimpleNamespace(monotonic=lambda: RT.sched.now,
                                          time=lambda: 1e9 + RT.sched.now)

    def showwarning(message, category, filename, lineno, file=None, line=None):
        run = RT.run
        if run is None:
            return
        cur = RT.sched.cur()
        run.warnings.append((cur.proc.pid if cur else 0, category.__name__, str(message)[:300]))
    warnings.showwarning = showwarning


def unpatch_threading():
    t = threading
    for k in ("_allocate_lock", "Lock", "_CRLock", "_start_new_thread", "_set_sentinel",
              "_register_atexit", "_time", "_shutdown", "excepthook"):
        setattr(t, k, _orig[k])
    _queue_mod.time = _orig["queue_time"]
    _cf_base.time = _orig["cf_time"]
    warnings.showwarning = _orig["showwarning"]
    t._shutdown_locks.clear()


# ------------------------------------------------------------------ process start / exit
_MAIN_BLOCKS = {}


def _main_block(path):
    if path not in _MAIN_BLOCKS:
        with open(path) as f:
            src = f.read()
        tree = ast.parse(src)
        for node in tree.body:
            if isinstance(node, ast.If) and "__main__" in ast.unparse(node.test):
                mod = ast.Module(body=node.body, type_ignores=[])
                _MAIN_BLOCKS[path] = compile(mod, path, "exec")
    return _MAIN_BLOCKS[path]


def thread_shutdown(proc):
    """threading._shutdown of CPython 3.12 for a simulated process: threading
    at-exit callbacks in reverse order, then join the non-daemon threads."""
    s = RT.sched
    proc.thr_shutting_down = True
    proc.exit_step = s.steps
    calls, proc.thr_atexits = proc.thr_atexits, []
    for fn, a, kw in reversed(calls):
        fn(*a, **kw)
    me = s.cur()
    while True:     # threads started meanwhile (e.g. a manager thread started by a user thread) are joined too
        pending = [t for t in proc.tasks if t is not me and not t.daemon and t.state != sk.DONE]
        if not pending:
            break
        for t in pending:
            s.block_until(lambda t=t: t.state == sk.DONE, None, "thr.shutdown")


def interpreter_exit(proc, code):
    """Py_FinalizeEx for a simulated process (called on its main task)."""
    proc.exiting = True
    RT.kernel.log.append(("finalize", proc.pid))
    thread_shutdown(proc)
    for fn, a, kw in reversed(list(proc.atexits)):
        try:
            fn(*a, **kw)
        except sk.SimKilled:
            raise
        except BaseException as e:  # atexit errors are printed and ignored
            RT.run.atexit_errors.append((proc.pid, type(e).__name__, str(e)[:200]))
    RT.sched.yield_("exit")
    RT.kernel.exit_proc(proc, ("exit", code))


def _exit_code_of(e):
    c = e.code
    if c is None:
        return 0
    if isinstance(c, int):
        return c & 0xFF
    return 1


def start_process(child):
    """called from the fake fork_exec: run the child's interpreter as a sim task."""
    s = RT.sched
    argv = child.argv
    if "-m" in argv and "popen_loky_posix" in argv[argv.index("-m") + 1]:
        child.role = "worker"
    elif "-c" in argv and "resource_tracker" in argv[argv.index("-c") + 1]:
        child.role = "tracker"
    else:
        child.role = "child"
    if child.role == "tracker":
        for of in child.fds.values():
            if of.mode == "r":
                of.pipe.watch = True
    RT.run.on_proc_start(child)

    def entry():
        code = 1
        try:
            boot = RT.run.model.get("boot", 0.02)
            if boot:
                s.sleep(boot)       # exec + interpreter start-up take time
            boot_modules(child)
            if "-m" in argv:
                i = argv.index("-m")
                modname = argv[i + 1]
                mod = importlib.import_module(modname)
                ns = mod.__dict__
                blk = _main_block(mod.__file__)
                ns["sys"].argv = [mod.__file__] + argv[i + 2:]
                ns["__name__"] = "__main__"
                sys.argv = [mod.__file__] + argv[i + 2:]
                try:
                    exec(blk, ns)
                finally:
                    if child.alive:
                        child.info["booted"] = True
            elif "-c" in argv:
                cmd = argv[argv.index("-c") + 1]
                exec(cmd, {"__name__": "__main__"})
                code = 0
        except SystemExit as e:
            code = _exit_code_of(e)
        interpreter_exit(child, code)

    child.overlay = _overlay(child)
    child.modules = {}
    role = {"worker": "worker-main", "tracker": "tracker-main"}.get(child.role, "child-main")
    t = s.spawn(child, "main", entry, role=role)
    t.sigmask = set(s.cur().sigmask)
    child.main_task = t


# ------------------------------------------------------------------ line tracing
TRACE_FILES = ("loky/process_executor.py", "loky/reusable_executor.py",
               "loky/backend/queues.py", "loky/backend/synchronize.py", "loky/backend/popen_loky_posix.py")


def _local_trace(frame, event, arg):
    if event == "line":
        s = RT.sched
        t = s.by_ident.get(sk.REAL_GET_IDENT())
        if t is not None and not s.teardown:
            la = s.knobs.get("line_at")
            if la and frame.f_code.co_name == la["func"] and t.state == sk.RUNNABLE and not t.killed and (
                    not la.get("armed") or getattr(RT.run, "line_at_armed", None) == t.ident):
                run = RT.run
                run.line_at_count = getattr(run, "line_at_count", 0) + 1
                if run.line_at_count == la["n"]:
                    # one delay placed at a source line: this thread runs again only when nobody else can
                    t.prio = -1e9
                    run.line_preempts += 1
                    s.yield_("line")
                    return _local_trace
            hot = s.knobs.get("hot")
            if hot:
                q = hot.get(frame.f_code.co_name)
                if q and t.state == sk.RUNNABLE and not t.killed:
                    if s.dec.pick(["n", "y"], [1.0 - q, q], "n") == "y":
                        RT.run.line_preempts += 1
                        s.yield_("line")
                        return _local_trace
            t.line_gap -= 1
            if t.line_gap <= 0:
                RT.run.line_preempts += 1
                t.line_gap = s.dec.gap(s.knobs["line_q"])
                s.yield_("line")
    return _local_trace


def _global_trace(frame, event, arg):
    if event == "call" and frame.f_code.co_filename.endswith(TRACE_FILES):
        return _local_trace
    return None


def on_task_start(t):
    s = RT.sched
    if (s.knobs["line_q"] > 0 or s.knobs.get("hot") or s.knobs.get("line_at")) and t.proc.pid == 100:
        t.line_gap = s.dec.gap(s.knobs["line_q"])
        sys.settrace(_global_trace)
    if not t.is_py_thread:
        threading._active.pop(t.ident, None)
        d = threading._DummyThread()
        d._daemonic = False       # it stands for the process's main thread: threads it starts are not daemonic


def on_task_end(t):
    threading._active.pop(t.ident, None)


# ------------------------------------------------------------------ safe gc
def safe_collect():
    """two-phase collection (DESIGN 6.1): never let the collector free a
    BytesIO whose buffer is still exported by a memoryview in the same cycle."""
    gc.set_debug(gc.DEBUG_SAVEALL)
    try:
        gc.collect()
    finally:
        gc.set_debug(0)
    for o in gc.garbage:
        if isinstance(o, memoryview):
            try:
                o.release()
            except Exception:
                pass
    o = None
    gc.garbage.clear()
    gc.collect()
    gc.collect()


logging.disable(logging.CRITICAL)
