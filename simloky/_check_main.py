import os
import sys

sys.path.insert(0, os.path.dirname(os.path.dirname(os.path.abspath(__file__))))
from simloky import driver  # noqa: E402

if __name__ == "__main__":
    sys.exit(driver.main(sys.argv[1:]))
