#!/bin/sh
# determinism self-test: for every check, 75 seeds are run twice in fresh interpreters (PYTHONHASHSEED 0 and 77)
# and full event digests are compared (the driver does this for the first chunks of every run; thorough tier = 75 seeds).
cd "$(dirname "$0")"
for p in ${1:-C01 C02 C03 C04 C05 C06 C07 C08 C09 C10 C11 C12 C13 C14 C15 C18 C19 C20}; do
  out=$(VERIF_SEED=${2:-7} ./check $p --tier thorough --runs 150 --jobs ${3:-8} 2>&1); rc=$?
  echo "$p rc=$rc $(echo "$out" | grep -c 'determinism self-check failed') mismatch-lines; $(echo "$out" | grep 'HARNESS' | cut -c1-160 | tr '\n' '|')"
  /venv/bin/python -c "
import json; d=json.load(open('evidence/$p.json'))['coverage']['determinism_selfcheck']; print('   ', d['runs_compared'], 'compared,', d['mismatches'], 'mismatches')"
done
git checkout -- evidence 2>/dev/null
