#!/venv/bin/python
"""Apply each patch (mutants/*.patch or seeded/*/patch.diff) to a scratch worktree of /repo
(outside /repo and /verif, removed afterwards), run the target checks against it with
VERIF_REPO=<dir>, and record whether and how fast the change is detected."""
import json, os, subprocess, sys, time, glob, re
REPO = "/repo"; VERIF = "/verif"

def run_one(name, patch, targets, runs, jobs):
    wt = "/tmp/mut_wt_%s" % re.sub(r"\W", "_", name)
    subprocess.run(["git", "-C", REPO, "worktree", "remove", "--force", wt], capture_output=True)
    subprocess.check_call(["git", "-C", REPO, "worktree", "add", "-q", wt, "HEAD"])
    res = dict(name=name, results={})
    try:
        r = subprocess.run(["git", "-C", wt, "apply", patch], capture_output=True, text=True)
        if r.returncode:
            res["error"] = "patch does not apply: " + r.stderr[:200]
            return res
        for t in targets:
            env = dict(os.environ, VERIF_REPO=wt)
            t0 = time.time()
            p = subprocess.run([os.path.join(VERIF, "check"), t, "--runs", str(runs), "--jobs", str(jobs), "--cap", os.environ.get("MUT_CAP", "100")],
                               env=env, capture_output=True, text=True, cwd=VERIF)
            sigs = re.findall(r"violation signature: (\S+) \((\d+) runs\)", p.stdout)
            res["results"][t] = dict(rc=p.returncode, wall=round(time.time() - t0, 1), signatures=sigs[:6],
                                     known=re.findall(r"KNOWN-FINDING: property=\S+ (\w+):", p.stdout),
                                     tail=p.stdout.strip().splitlines()[-1][:200] if p.stdout.strip() else p.stderr[-200:])
    finally:
        subprocess.run(["git", "-C", REPO, "worktree", "remove", "--force", wt], capture_output=True)
    return res

def main():
    which = sys.argv[1] if len(sys.argv) > 1 else "mutants"
    only = sys.argv[2:] 
    runs = int(os.environ.get("MUT_RUNS", "1500")); jobs = int(os.environ.get("MUT_JOBS", "16"))
    items = []
    if which == "mutants":
        for m in json.load(open(os.path.join(VERIF, "mutants", "index.json"))):
            items.append((m["name"], os.path.join(VERIF, "mutants", m["name"] + ".patch"), m["targets"]))
    else:
        for d in sorted(glob.glob(os.path.join(VERIF, "seeded", "*"))):
            if os.path.isdir(d) and os.path.exists(os.path.join(d, "meta.json")):
                meta = json.load(open(os.path.join(d, "meta.json")))
                items.append((os.path.basename(d), os.path.join(d, "patch.diff"), meta.get("checks") or [meta["property"]]))
    out = []
    for name, patch, targets in items:
        if only and not any(o in name for o in only):
            continue
        r = run_one(name, patch, targets, runs, jobs)
        out.append(r)
        for t, x in r.get("results", {}).items():
            print("%-40s %s rc=%d %5.1fs %s" % (name, t, x["rc"], x["wall"], [s for s, _ in x["signatures"]][:3] or x["tail"][:100]))
        if r.get("error"):
            print(name, "ERROR", r["error"])
        sys.stdout.flush()
    json.dump(out, open(os.path.join(VERIF, which, "results_%d.json" % int(time.time())), "w"), indent=1)
main()
