#!/bin/sh
# usage: tools_sweep.sh "<seeds>" "<props>" [jobs]  -> one line per (prop, seed)
SEEDS="$1"; PROPS="$2"; JOBS="${3:-8}"
cd "$(dirname "$0")"
for sd in $SEEDS; do for p in $PROPS; do
  out=$(VERIF_SEED=$sd ./check $p --jobs $JOBS 2>&1); rc=$?
  echo "seed=$sd $p rc=$rc $(echo "$out" | grep -c '^VIOLATION') viol; $(echo "$out" | grep 'violation signature' | cut -c1-160 | tr '\n' '|') $(echo "$out" | grep 'HARNESS' | cut -c1-120 | tr '\n' '|')"
done; done
