#!/venv/bin/python
"""Build /verif/mutants/*.patch: small realistic changes of my own (DESIGN 11)."""
import os, subprocess, shutil, sys, json
REPO = "/repo"
OUT = "/verif/mutants"
M = [
 ("M01_drop_submit_wakeup", "C01", "loky/process_executor.py",
  "            # Wake up queue management thread\n            self._executor_manager_thread_wakeup.wakeup()\n\n            self._ensure_executor_running()",
  "            self._ensure_executor_running()"),
 ("M02_feeder_error_keeps_slot", "C04", "loky/backend/queues.py",
  "                    queue_sem.release()\n                    onerror(e, obj)", "                    onerror(e, obj)"),
 ("M03_broken_flag_not_set", "C02", "loky/process_executor.py",
  "        self.executor_flags.flag_as_broken(bpe)\n", "        self.executor_flags.broken = None\n"),
 ("M04_result_routed_to_oldest", "C03", "loky/process_executor.py",
  "            work_item = self.pending_work_items.pop(result_item.work_id, None)\n            # work_item can be None if another process terminated (see above)",
  "            work_item = self.pending_work_items.pop(\n                min(self.running_work_items, default=result_item.work_id), None\n            )\n            # work_item can be None if another process terminated (see above)"),
 ("M05_one_sentinel_too_few", "C05", "loky/process_executor.py",
  "            for _ in range(n_children_to_stop - n_sentinels_sent):\n                try:\n                    self.call_queue.put_nowait(None)",
  "            for _ in range(n_children_to_stop - n_sentinels_sent - (n_children_to_stop > 2)):\n                try:\n                    self.call_queue.put_nowait(None)"),
 ("M06_dispatch_ignores_cancel", "C03", "loky/process_executor.py",
  "                if work_item.future.set_running_or_notify_cancel():", "                if work_item.future.set_running_or_notify_cancel() or True:"),
 ("M07_spawn_one_too_many", "C08", "loky/process_executor.py",
  "        while len(self._processes) < self._max_workers:", "        while len(self._processes) < self._max_workers + (self._queue_count > 3):"),
 ("M08_respawn_needs_two_pending", "C07", "loky/process_executor.py",
  "            if n_pending - n_running > 0 or n_running > len(self.processes):", "            if n_pending - n_running > 1 or n_running > len(self.processes):"),
 ("M09_cleanup_skips_unregister", "C13", "loky/backend/synchronize.py",
  "        finally:\n            resource_tracker.unregister(name, \"semlock\")", "        finally:\n            pass"),
 ("M10_copies_register", "C13", "loky/backend/synchronize.py",
  "        self._semlock = _SemLock._rebuild(*state)\n", "        self._semlock = _SemLock._rebuild(*state)\n        resource_tracker.register(self._semlock.name, \"semlock\")\n"),
 ("M11_unregister_decrements", "C11", "loky/backend/resource_tracker.py",
  "                        del registry[rtype][name]\n                        if verbose:\n                            util.debug(\n                                f\"[ResourceTracker] unregister",
  "                        registry[rtype][name] -= 1\n                        if registry[rtype][name] <= 0:\n                            del registry[rtype][name]\n                        if verbose:\n                            util.debug(\n                                f\"[ResourceTracker] unregister"),
 ("M12_folders_swept_first", "C11", "loky/backend/resource_tracker.py",
  "        for rtype, rtype_registry in registry.items():\n            if rtype == \"folder\":\n                continue\n            else:\n                _unlink_resources(rtype_registry, rtype)",
  "        if \"folder\" in registry:\n            _unlink_resources(registry[\"folder\"], \"folder\")\n        for rtype, rtype_registry in registry.items():\n            if rtype == \"folder\":\n                continue\n            else:\n                _unlink_resources(rtype_registry, rtype)\n        registry = {}"),
 ("M13_no_sigmask_around_spawn", "C12", "loky/backend/resource_tracker.py",
  "                    if _HAVE_SIGMASK:\n                        signal.pthread_sigmask(\n                            signal.SIG_BLOCK, _IGNORED_SIGNALS\n                        )\n                    pid = spawnv_passfds",
  "                    pid = spawnv_passfds"),
 ("M14_close_fds_off", "C18", "loky/backend/fork_exec.py", "            True,  # close_fds", "            False,  # close_fds"),
 ("M15_depth_not_incremented", "C19", "loky/process_executor.py", "                _CURRENT_DEPTH + 1,\n            )", "                max(_CURRENT_DEPTH, 1),\n            )"),
 ("M16_notify_keeps_stale_wakeup", "C14", "loky/backend/synchronize.py",
  "            # rezero _wait_semaphore in case a timeout just happened\n            self._wait_semaphore.acquire(False)", "            pass"),
 ("M17_kill_tree_skips_descendants", "C06", "loky/backend/utils.py",
  "    for descendant in descendants[::-1]:", "    for descendant in descendants[:0]:"),
 ("M18_resize_posts_one_sentinel_less", "C10", "loky/reusable_executor.py",
  "                for _ in range(max_workers, nb_children_alive):", "                for _ in range(max_workers + (max_workers > 1), nb_children_alive):"),
 ("M19_timeout_ignores_management_lock", "C10", "loky/process_executor.py",
  "            if processes_management_lock.acquire(block=False):\n                processes_management_lock.release()\n                call_item = None\n            else:\n                mp.util.info(\"Could not acquire processes_management_lock\")\n                continue",
  "            call_item = None"),
 ("M20_result_reducers_not_defaulted", "C15", "loky/process_executor.py",
  "        if result_reducers is None:\n            result_reducers = job_reducers\n", ""),
 ("M21_exitcode_sign", "C18", "loky/backend/popen_loky_posix.py", "                    self.returncode = -os.WTERMSIG(sts)", "                    self.returncode = os.WTERMSIG(sts)"),
 ("M22_sentinel_never_closed", "C20", "loky/backend/popen_loky_posix.py",
  "            if parent_r is not None:\n                util.Finalize(self, os.close, (parent_r,))", "            pass"),
 ("M23_tracker_cleans_at_one", "C11", "loky/backend/resource_tracker.py",
  "                        if registry[rtype][name] == 0:", "                        if registry[rtype][name] <= (1 if rtype == \"folder\" else 0):"),
 ("M24_init_main_for_loky", "C18", "loky/backend/process.py", "        init_main_module=False,\n        env=None,", "        init_main_module=True,\n        env=None,"),
 ("M25_env_applied_under_parent", "C18", "loky/backend/fork_exec.py", "    env = {**os.environ, **env}", "    env = {**env, **os.environ}"),
 ("M26_cancelled_counted_running", "C04", "loky/process_executor.py",
  "            work_item = self.pending_work_items.pop(obj.work_id, None)\n            self.running_work_items.remove(obj.work_id)", "            work_item = self.pending_work_items.pop(obj.work_id, None)"),
 ("M27_max_depth_off_by_one", "C19", "loky/process_executor.py", "    if 0 < MAX_DEPTH and _CURRENT_DEPTH + 1 > MAX_DEPTH:", "    if 0 < MAX_DEPTH and _CURRENT_DEPTH > MAX_DEPTH:"),
 ("M28_reuse_ignores_shutdown_flag", "C09", "loky/reusable_executor.py",
  "                    executor._flags.broken\n                    or executor._flags.shutdown\n                    or not reuse", "                    executor._flags.broken\n                    or not reuse"),
 ("M29_kill_workers_leaves_pending", "C06", "loky/process_executor.py",
  "        if self.executor_flags.kill_workers:\n            while self.pending_work_items:", "        if self.executor_flags.kill_workers:\n            while len(self.pending_work_items) > 1:"),
 ("M30_event_set_without_notify", "C14", "loky/backend/synchronize.py",
  "            self._flag.acquire(False)\n            self._flag.release()\n            self._cond.notify_all()", "            self._flag.acquire(False)\n            self._flag.release()\n            self._cond.notify()"),
]
def main():
    tmp = "/tmp/mkmut_wt"
    subprocess.run(["git", "-C", REPO, "worktree", "remove", "--force", tmp], capture_output=True)
    subprocess.check_call(["git", "-C", REPO, "worktree", "add", "-q", tmp, "HEAD"])
    index = []
    try:
        for name, prop, path, old, new in M:
            f = os.path.join(tmp, path)
            s = open(f).read()
            if s.count(old) != 1:
                print("SKIP", name, "pattern count", s.count(old)); continue
            open(f, "w").write(s.replace(old, new))
            r = subprocess.run(["/venv/bin/python", "-c", "import ast,sys; ast.parse(open(sys.argv[1]).read())", f])
            if r.returncode:
                print("SYNTAX", name)
            d = subprocess.run(["git", "-C", tmp, "diff"], capture_output=True, text=True).stdout
            open(os.path.join(OUT, name + ".patch"), "w").write(d)
            subprocess.check_call(["git", "-C", tmp, "checkout", "-q", "--", "."])
            index.append(dict(name=name, targets=[prop], file=path))
        json.dump(index, open(os.path.join(OUT, "index.json"), "w"), indent=1)
    finally:
        subprocess.run(["git", "-C", REPO, "worktree", "remove", "--force", tmp], capture_output=True)
    print(len(index), "mutants")
main()
