#!/bin/sh
# usage: tools_thorough.sh "<seeds>" "<props>" [jobs]  -> thorough tier of every check, one line per (prop, seed);
# the evidence file of each run is kept as evidence_thorough/<id>.seed<k>.json
SEEDS="$1"; PROPS="$2"; JOBS="${3:-12}"
cd "$(dirname "$0")"
mkdir -p evidence_thorough
for sd in $SEEDS; do for p in $PROPS; do
  t0=$(date +%s)
  out=$(VERIF_SEED=$sd ./check $p --tier thorough --jobs $JOBS 2>&1); rc=$?
  cp evidence/$p.json evidence_thorough/$p.seed$sd.json 2>/dev/null
  echo "seed=$sd $p rc=$rc $(( $(date +%s) - t0 ))s $(echo "$out" | grep -c '^VIOLATION') viol; $(echo "$out" | tail -1 | cut -c1-200) $(echo "$out" | grep 'violation signature' | cut -c1-200 | tr '\n' '|') $(echo "$out" | grep '^VIOLATION' | cut -c1-160 | tr '\n' '|') $(echo "$out" | grep 'HARNESS' | cut -c1-120 | tr '\n' '|')"
done; done
