#!/bin/sh
# quick re-check of the two checks changed last, then the thorough tier of the checks not yet run on the final code
cd "$(dirname "$0")"
./tools_sweep.sh "0 2 3 1" "C09 C12" 16
./tools_thorough.sh "1" "${1:-C12 C09 C04 C18 C20 C02 C01 C13 C10 C11 C14 C15 C19}" 16
